(* C15 — base58 and address text: round trips, canonicity, failure condition. *)
From Sky Require Import Base.Uint Model.Base58.
From Coq Require Import Lia ZifyBool.
Open Scope Z_scope.

Lemma div_eucl_eq a b : Z.div_eucl a b = (a / b, a mod b).
Proof. unfold Z.div, Z.modulo. destruct (Z.div_eucl a b). reflexivity. Qed.

(* ================= positional numerals in one base ================= *)
Section OneBase.
  Variable b : Z.
  Hypothesis Hb : 2 <= b.

  Definition digit (d : Z) : Prop := 0 <= d < b.

  (* value of a least-significant-first digit list *)
  Fixpoint le_val (l : list Z) : Z :=
    match l with [] => 0 | d :: r => d + b * le_val r end.

  Lemma horner_snoc l d : horner b (l ++ [d]) = horner b l * b + d.
  Proof. unfold horner. rewrite fold_left_app. reflexivity. Qed.

  Lemma horner_rev l : horner b (rev l) = le_val l.
  Proof.
    induction l as [|d r IH]; [reflexivity|].
    cbn [rev le_val]. rewrite horner_snoc, IH. lia.
  Qed.

  Lemma le_val_digits_rev : forall fuel v, 0 <= v < 2 ^ Z.of_nat fuel ->
    le_val (digits_rev b fuel v) = v.
  Proof.
    induction fuel as [|f IH]; intros v Hv.
    - cbn in Hv. cbn [digits_rev le_val]. lia.
    - cbn [digits_rev]. destruct (v <=? 0) eqn:E; [cbn [le_val]; lia|].
      rewrite div_eucl_eq. cbn [le_val]. rewrite IH.
      + pose proof (Z.div_mod v b ltac:(lia)). lia.
      + rewrite Nat2Z.inj_succ, Z.pow_succ_r in Hv by lia.
        split; [apply Z.div_pos; lia|].
        apply Z.div_lt_upper_bound; [lia|]. nia.
  Qed.

  Lemma log2_fuel v : 0 <= v -> 0 <= v < 2 ^ Z.of_nat (S (Z.to_nat (Z.log2 v))).
  Proof.
    intros Hv. split; [exact Hv|].
    pose proof (Z.log2_nonneg v) as Hl.
    rewrite Nat2Z.inj_succ, Z2Nat.id by exact Hl.
    destruct (Z.eq_dec v 0) as [->|Hnz]; [reflexivity|].
    apply Z.log2_spec. lia.
  Qed.

  Lemma horner_digits v : 0 <= v -> horner b (digits b v) = v.
  Proof.
    intros Hv. unfold digits. rewrite horner_rev.
    apply le_val_digits_rev. apply log2_fuel. exact Hv.
  Qed.

  (* canonical least-significant-first list: digits in range, last one non-zero *)
  Inductive canon_le : list Z -> Prop :=
  | cl_nil : canon_le []
  | cl_cons d r : digit d -> canon_le r -> (r = [] -> d <> 0) -> canon_le (d :: r).

  Lemma canon_le_pos l : canon_le l -> l <> [] -> 0 < le_val l.
  Proof.
    induction 1 as [|d r Hd Hr IH Hlast]; intros Hne; [congruence|].
    cbn [le_val]. unfold digit in Hd. destruct r as [|d' r'].
    - specialize (Hlast eq_refl). cbn [le_val]. lia.
    - specialize (IH ltac:(discriminate)). nia.
  Qed.

  Lemma canon_le_nonneg l : canon_le l -> 0 <= le_val l.
  Proof.
    intros H. destruct l; [cbn; lia|]. pose proof (canon_le_pos _ H ltac:(discriminate)). lia.
  Qed.

  Lemma canon_le_lower l : canon_le l -> l <> [] ->
    2 ^ (Z.of_nat (List.length l) - 1) <= le_val l.
  Proof.
    induction 1 as [|d r Hd Hr IH Hlast]; intros Hne; [congruence|].
    cbn [le_val List.length]. unfold digit in Hd. destruct r as [|d' r'].
    - specialize (Hlast eq_refl). cbn [le_val]. cbn. lia.
    - specialize (IH ltac:(discriminate)).
      replace (Z.of_nat (S (List.length (d' :: r'))) - 1)
        with (Z.succ (Z.of_nat (List.length (d' :: r')) - 1)) by lia.
      rewrite Z.pow_succ_r by (cbn [List.length]; lia). nia.
  Qed.

  Lemma digits_rev_canon : forall fuel v, 0 <= v < 2 ^ Z.of_nat fuel ->
    canon_le (digits_rev b fuel v).
  Proof.
    induction fuel as [|f IH]; intros v Hv; [constructor|].
    cbn [digits_rev]. destruct (v <=? 0) eqn:E; [constructor|]. rewrite div_eucl_eq.
    assert (Hq : 0 <= v / b < 2 ^ Z.of_nat f).
    { rewrite Nat2Z.inj_succ, Z.pow_succ_r in Hv by lia.
      split; [apply Z.div_pos; lia|]. apply Z.div_lt_upper_bound; [lia|]. nia. }
    constructor.
    - apply Z.mod_pos_bound. lia.
    - apply IH. exact Hq.
    - intros Hnil. pose proof (le_val_digits_rev f (v / b) Hq) as Hval.
      rewrite Hnil in Hval. cbn [le_val] in Hval.
      pose proof (Z.div_mod v b ltac:(lia)). lia.
  Qed.

  Lemma digits_rev_unique : forall l fuel, canon_le l -> (List.length l <= fuel)%nat ->
    digits_rev b fuel (le_val l) = l.
  Proof.
    induction l as [|d r IH]; intros fuel Hc Hf.
    - destruct fuel; reflexivity.
    - pose proof (canon_le_pos _ Hc ltac:(discriminate)) as Hpos.
      inversion Hc as [|d0 r0 Hd Hr Hlast]; subst d0 r0. unfold digit in Hd.
      destruct fuel as [|f]; [cbn [List.length] in Hf; lia|].
      cbn [digits_rev]. replace (le_val (d :: r) <=? 0) with false by lia.
      rewrite div_eucl_eq. cbn [le_val].
      assert (Hmod : (d + b * le_val r) mod b = d).
      { rewrite Z.mul_comm, Z.mod_add by lia. apply Z.mod_small. lia. }
      assert (Hdiv : (d + b * le_val r) / b = le_val r).
      { rewrite Z.mul_comm, Z.div_add by lia. rewrite Z.div_small by lia. lia. }
      rewrite Hmod, Hdiv. f_equal. apply IH; [exact Hr|]. cbn [List.length] in Hf. lia.
  Qed.

  Lemma canon_le_fuel l : canon_le l ->
    (List.length l <= S (Z.to_nat (Z.log2 (le_val l))))%nat.
  Proof.
    intros Hc. destruct l as [|d r]; [cbn [List.length]; lia|].
    pose proof (canon_le_pos _ Hc ltac:(discriminate)) as Hpos.
    pose proof (canon_le_lower _ Hc ltac:(discriminate)) as Hlow.
    apply Z.log2_le_pow2 in Hlow; [|exact Hpos]. lia.
  Qed.

  Lemma canon_le_snoc l d : canon_le (l ++ [d]) <-> Forall digit l /\ digit d /\ d <> 0.
  Proof.
    induction l as [|x r IH]; cbn [app].
    - split.
      + intros H. inversion H as [|d0 r0 Hd Hr Hlast]; subst.
        split; [constructor|]. split; [exact Hd|]. apply Hlast. reflexivity.
      + intros (_ & Hd & Hnz). constructor; [exact Hd|constructor|intros _; exact Hnz].
    - split.
      + intros H. inversion H as [|d0 r0 Hd Hr Hlast]; subst.
        apply IH in Hr. destruct Hr as (Hf & Hdd & Hnz).
        split; [constructor; assumption|]. split; assumption.
      + intros (Hf & Hd & Hnz). inversion Hf as [|x0 r0 Hx Hr']; subst.
        constructor; [exact Hx| apply IH; auto |].
        intros Hnil. destruct r; discriminate.
  Qed.

  (* most-significant-first canonical strings *)
  Definition nz_head (ds : list Z) : Prop :=
    match ds with [] => True | d :: _ => d <> 0 end.

  Lemma Forall_rev_iff' {A} (P : A -> Prop) l : Forall P (rev l) <-> Forall P l.
  Proof.
    split; intros H; [rewrite <- (rev_involutive l)|]; apply Forall_rev; exact H.
  Qed.

  Lemma canon_le_rev ds : canon_le (rev ds) <-> Forall digit ds /\ nz_head ds.
  Proof.
    destruct ds as [|d r].
    - cbn. split; [intros _; split; [constructor|exact I] | intros _; constructor].
    - cbn [rev nz_head]. rewrite canon_le_snoc. rewrite Forall_rev_iff'.
      split.
      + intros (Hf & Hd & Hnz). split; [constructor; assumption|exact Hnz].
      + intros (Hf & Hnz). inversion Hf as [|x0 r0 Hx Hr']; subst.
        split; [exact Hr'|]. split; [exact Hx|exact Hnz].
  Qed.

  Lemma digits_canon v : 0 <= v -> Forall digit (digits b v) /\ nz_head (digits b v).
  Proof.
    intros Hv. apply canon_le_rev. unfold digits. rewrite rev_involutive.
    apply digits_rev_canon. apply log2_fuel. exact Hv.
  Qed.

  Lemma digits_horner ds : Forall digit ds -> nz_head ds -> digits b (horner b ds) = ds.
  Proof.
    intros Hf Hnz. assert (Hc : canon_le (rev ds)) by (apply canon_le_rev; split; assumption).
    unfold digits. rewrite <- (rev_involutive ds) at 1 2. rewrite horner_rev.
    rewrite digits_rev_unique; [apply rev_involutive|exact Hc|apply canon_le_fuel; exact Hc].
  Qed.

  Lemma horner_nonneg ds : Forall digit ds -> 0 <= horner b ds.
  Proof.
    intros Hf. rewrite <- (rev_involutive ds), horner_rev.
    assert (Hr : Forall digit (rev ds)) by (apply Forall_rev; exact Hf).
    induction Hr as [|d r Hd _ IH]; cbn [le_val]; [lia|]. unfold digit in Hd. nia.
  Qed.

  (* leading zeros *)
  Lemma horner_zeros z c : horner b (repeat 0 z ++ c) = horner b c.
  Proof.
    unfold horner. induction z as [|z IH]; [reflexivity|].
    cbn [repeat app fold_left]. exact IH.
  Qed.

  Lemma lead_zeros_app z c : nz_head c -> lead_zeros (repeat 0 z ++ c) = z.
  Proof.
    intros Hnz. induction z as [|z IH]; cbn [repeat app lead_zeros].
    - destruct c as [|d r]; [reflexivity|]. cbn [nz_head] in Hnz. cbn [lead_zeros].
      destruct d; try reflexivity. congruence.
    - now rewrite IH.
  Qed.

  Lemma lead_zeros_split l :
    l = repeat 0 (lead_zeros l) ++ skipn (lead_zeros l) l /\ nz_head (skipn (lead_zeros l) l).
  Proof.
    induction l as [|d r IH]; [split; [reflexivity|exact I]|].
    destruct d as [|p|p]; cbn [lead_zeros skipn repeat app].
    - destruct IH as [IH1 IH2]. split; [f_equal; exact IH1|exact IH2].
    - split; [reflexivity|cbn; discriminate].
    - split; [reflexivity|cbn; discriminate].
  Qed.

  Lemma skipn_Forall {A} (P : A -> Prop) n (l : list A) : Forall P l -> Forall P (skipn n l).
  Proof.
    revert l. induction n as [|n IH]; intros l H; [exact H|].
    destruct l; [constructor|]. inversion H; subst. cbn [skipn]. apply IH. assumption.
  Qed.
End OneBase.

(* ================= between two bases ================= *)
Section TwoBases.
  Variables b1 b2 : Z.
  Hypothesis H1 : 2 <= b1.
  Hypothesis H2 : 2 <= b2.

  Lemma recode_digits l : Forall (digit b1) l -> Forall (digit b2) (recode b1 b2 l).
  Proof.
    intros Hl. unfold recode. apply Forall_app. split.
    - apply Forall_forall. intros x Hx. apply repeat_spec in Hx. subst x. unfold digit. lia.
    - apply digits_canon; [exact H2|]. apply horner_nonneg; assumption.
  Qed.

  Lemma recode_inv l : Forall (digit b1) l -> recode b2 b1 (recode b1 b2 l) = l.
  Proof.
    intros Hl.
    destruct (lead_zeros_split l) as [Hsplit Hnz].
    set (z := lead_zeros l) in *. set (c := skipn z l) in *.
    assert (Hc : Forall (digit b1) c) by (apply skipn_Forall; exact Hl).
    assert (Hv : horner b1 l = horner b1 c) by (rewrite Hsplit at 1; apply horner_zeros).
    assert (Hv0 : 0 <= horner b1 c) by (apply horner_nonneg; assumption).
    destruct (digits_canon b2 H2 (horner b1 c) Hv0) as [Hd2 Hnz2].
    unfold recode at 2. fold z. rewrite Hv.
    unfold recode.
    rewrite (lead_zeros_app z _ Hnz2).
    rewrite horner_zeros. rewrite horner_digits by assumption.
    rewrite digits_horner by assumption.
    symmetry. exact Hsplit.
  Qed.
End TwoBases.

(* ================= alphabet ================= *)

Lemma index_of_some c : forall l i d, index_of c l i = Some d ->
  i <= d < i + Z.of_nat (List.length l) /\ nth_error l (Z.to_nat (d - i)) = Some c.
Proof.
  induction l as [|x r IH]; intros i d H; cbn [index_of] in H; [discriminate|].
  destruct (x =? c) eqn:E.
  - injection H as <-. cbn [List.length]. split; [lia|].
    rewrite Z.sub_diag. cbn. f_equal. lia.
  - apply IH in H. destruct H as [Hr Hn]. cbn [List.length]. split; [lia|].
    replace (Z.to_nat (d - i)) with (S (Z.to_nat (d - (i + 1)))) by lia. exact Hn.
Qed.

Lemma index_of_none c : forall l i, index_of c l i = None <-> ~ In c l.
Proof.
  induction l as [|x r IH]; intros i; cbn [index_of In]; [tauto|].
  destruct (x =? c) eqn:E.
  - split; [discriminate|]. intros H. exfalso. apply H. left. lia.
  - rewrite IH. split; intros H; [intros [Hx|Hin]; [lia|tauto] | tauto].
Qed.

Lemma alphabet_length : List.length alphabet = 58%nat.
Proof. reflexivity. Qed.

Lemma digit_char d : 0 <= d < 58 -> digit_of_char (char_of_digit d) = Some d.
Proof.
  intros Hd. assert (Hk : exists k, (k < 58)%nat /\ d = Z.of_nat k) by (exists (Z.to_nat d); lia).
  destruct Hk as (k & Hk & ->).
  do 58 (destruct k as [|k]; [vm_compute; reflexivity|]). lia.
Qed.

Lemma char_digit c d : digit_of_char c = Some d -> 0 <= d < 58 /\ char_of_digit d = c.
Proof.
  unfold digit_of_char. intros H. apply index_of_some in H. destruct H as [Hr Hn].
  rewrite alphabet_length in Hr. split; [lia|].
  unfold char_of_digit. replace ((0 <=? d) && (d <? 58)) with true by lia.
  rewrite Z.sub_0_r in Hn. apply nth_error_nth. exact Hn.
Qed.

Lemma digits_of_text_map ds : Forall (digit 58) ds ->
  digits_of_text (map char_of_digit ds) = Some ds.
Proof.
  induction 1 as [|d r Hd _ IH]; [reflexivity|].
  cbn [map digits_of_text]. rewrite digit_char by exact Hd. rewrite IH. reflexivity.
Qed.

Lemma digits_of_text_some : forall s ds, digits_of_text s = Some ds ->
  Forall (digit 58) ds /\ map char_of_digit ds = s.
Proof.
  induction s as [|c r IH]; intros ds H; cbn [digits_of_text] in H.
  - injection H as <-. split; [constructor|reflexivity].
  - destruct (digit_of_char c) as [d|] eqn:Ed; [|discriminate].
    destruct (digits_of_text r) as [ds'|] eqn:Er; [|discriminate].
    injection H as <-. destruct (IH ds' eq_refl) as [Hf Hm].
    apply char_digit in Ed. destruct Ed as [Hd Hc].
    split; [constructor; [exact Hd|exact Hf] | cbn [map]; now rewrite Hc, Hm].
Qed.

Lemma digits_of_text_none s : digits_of_text s = None <-> Exists (fun c => ~ in_alphabet c) s.
Proof.
  induction s as [|c r IH]; cbn [digits_of_text].
  - split; [discriminate|]. intros H. inversion H.
  - destruct (digit_of_char c) as [d|] eqn:Ed.
    + destruct (digits_of_text r) as [ds|] eqn:Er.
      * split; [discriminate|]. intros H. inversion H as [x l Hx|x l Hx]; subst.
        -- exfalso. apply (index_of_none c alphabet 0) in Hx. unfold digit_of_char in Ed. congruence.
        -- apply IH in Hx. discriminate.
      * split; [|reflexivity]. intros _. apply Exists_cons_tl. apply IH. reflexivity.
    + split; [|reflexivity]. intros _. apply Exists_cons_hd.
      apply (index_of_none c alphabet 0). exact Ed.
Qed.

(* ================= base58 ================= *)

Lemma is_byte_digit l : Forall is_byte l <-> Forall (digit 256) l.
Proof. reflexivity. Qed.

Theorem dec_enc bs : Forall is_byte bs -> bs <> [] -> b58dec (b58enc bs) = Ok bs.
Proof.
  intros Hb Hne. unfold b58enc, b58dec.
  pose proof (recode_digits 256 58 ltac:(lia) ltac:(lia) bs Hb) as Hd.
  pose proof (recode_inv 256 58 ltac:(lia) ltac:(lia) bs Hb) as Hinv.
  set (ds := recode 256 58 bs) in *.
  assert (Hds : ds <> []) by (intros E; rewrite E in Hinv; cbn in Hinv; congruence).
  rewrite digits_of_text_map by exact Hd.
  destruct ds as [|d ds']; [congruence|]. cbn [map]. now rewrite Hinv.
Qed.

Theorem enc_dec s bs : b58dec s = Ok bs -> b58enc bs = s.
Proof.
  unfold b58dec. destruct s as [|c r]; [discriminate|].
  destruct (digits_of_text (c :: r)) as [ds|] eqn:E; [|discriminate].
  intros H. injection H as <-.
  apply digits_of_text_some in E. destruct E as [Hf Hm].
  unfold b58enc. rewrite recode_inv by (try lia; exact Hf). exact Hm.
Qed.

Theorem dec_bytes s bs : b58dec s = Ok bs -> Forall is_byte bs.
Proof.
  unfold b58dec. destruct s as [|c r]; [discriminate|].
  destruct (digits_of_text (c :: r)) as [ds|] eqn:E; [|discriminate].
  intros H. injection H as <-.
  apply digits_of_text_some in E. destruct E as [Hf _].
  apply (recode_digits 58 256 ltac:(lia) ltac:(lia) ds Hf).
Qed.

Theorem dec_fails_iff s :
  (exists e, b58dec s = Err e) <-> s = [] \/ Exists (fun c => ~ in_alphabet c) s.
Proof.
  unfold b58dec. destruct s as [|c r].
  - split; [intros _; now left | intros _; eexists; reflexivity].
  - destruct (digits_of_text (c :: r)) as [ds|] eqn:E.
    + split; [intros [e He]; discriminate|].
      intros [Hnil|Hex]; [discriminate|]. apply digits_of_text_none in Hex. congruence.
    + split; [|intros _; eexists; reflexivity].
      intros _. right. apply digits_of_text_none. exact E.
Qed.

Theorem dec_error_kind s e : b58dec s = Err e ->
  (s = [] /\ e = "ErrInvalidString"%string) \/
  (s <> [] /\ Exists (fun c => ~ in_alphabet c) s /\ e = "ErrInvalidChar"%string).
Proof.
  unfold b58dec. destruct s as [|c r]; [intros H; injection H as <-; now left|].
  destruct (digits_of_text (c :: r)) as [ds|] eqn:E; [discriminate|].
  intros H. injection H as <-. right. split; [discriminate|]. split; [|reflexivity].
  apply digits_of_text_none. exact E.
Qed.

(* every non-empty text over the alphabet is the encoding of exactly one byte string *)
Theorem dec_total_on_alphabet s : s <> [] -> Forall in_alphabet s ->
  exists bs, b58dec s = Ok bs /\ b58enc bs = s.
Proof.
  intros Hne Hall. destruct (b58dec s) as [bs|e] eqn:E.
  - exists bs. split; [reflexivity|]. apply enc_dec. exact E.
  - exfalso. assert (Hex : exists e, b58dec s = Err e) by (eexists; exact E).
    apply dec_fails_iff in Hex. destruct Hex as [Hnil|Hex]; [congruence|].
    apply Exists_exists in Hex. destruct Hex as (c & Hin & Hnot).
    rewrite Forall_forall in Hall. apply Hnot. apply Hall. exact Hin.
Qed.

Theorem enc_injective a b : Forall is_byte a -> Forall is_byte b -> b58enc a = b58enc b -> a = b.
Proof.
  intros Ha Hb H. unfold b58enc in H.
  rewrite <- (recode_inv 256 58 ltac:(lia) ltac:(lia) a Ha).
  rewrite <- (recode_inv 256 58 ltac:(lia) ltac:(lia) b Hb).
  f_equal.
  pose proof (recode_digits 256 58 ltac:(lia) ltac:(lia) a Ha) as Da.
  pose proof (recode_digits 256 58 ltac:(lia) ltac:(lia) b Hb) as Db.
  apply (f_equal digits_of_text) in H.
  rewrite !digits_of_text_map in H by assumption. congruence.
Qed.

(* ================= addresses ================= *)

Lemma eqb_list_Z_eq : forall x y, eqb_list Z.eqb x y = true <-> x = y.
Proof.
  induction x as [|a x IH]; destruct y as [|b y]; cbn [eqb_list]; split; intros H; try congruence; try discriminate.
  - apply andb_prop in H. destruct H as [Hab Hxy]. apply IH in Hxy. f_equal; [lia|exact Hxy].
  - injection H as -> ->. rewrite Z.eqb_refl. cbn. apply IH. reflexivity.
Qed.

Lemma In_firstn' {A} (x : A) n l : In x (firstn n l) -> In x l.
Proof. intros H. rewrite <- (firstn_skipn n l). apply in_or_app. now left. Qed.

Lemma skipn_app_exact {A} (k r : list A) n : List.length k = n -> skipn n (k ++ r) = r.
Proof. intros <-. rewrite skipn_app, Nat.sub_diag, skipn_all. reflexivity. Qed.
Lemma firstn_app_exact {A} (k r : list A) n : List.length k = n -> firstn n (k ++ r) = k.
Proof. intros <-. rewrite firstn_app, Nat.sub_diag, firstn_all. cbn [firstn]. apply app_nil_r. Qed.

Section AddrProofs.
  Variable sha : list Z -> list Z.
  Hypothesis sha_len : forall m, (4 <= List.length (sha m))%nat.
  Hypothesis sha_bytes : forall m, Forall is_byte (sha m).

  Lemma checksum_length a : List.length (addr_checksum sha a) = 4%nat.
  Proof. unfold addr_checksum. rewrite firstn_length. pose proof (sha_len (a_key a ++ [a_version a])). lia. Qed.

  Lemma checksum_bytes a : Forall is_byte (addr_checksum sha a).
  Proof.
    unfold addr_checksum. apply Forall_forall. intros x Hx.
    pose proof (sha_bytes (a_key a ++ [a_version a])) as H. rewrite Forall_forall in H.
    apply H. apply (In_firstn' x 4). exact Hx.
  Qed.

  Lemma from_bytes_addr_bytes a : wf_address a -> a_version a = 0 ->
    addr_from_bytes sha (addr_bytes sha a) = Ok a.
  Proof.
    intros (Hlen & Hkb & Hvb) Hv.
    assert (Hl : List.length (addr_bytes sha a) = 25%nat).
    { unfold addr_bytes. rewrite !app_length, checksum_length, Hlen. reflexivity. }
    unfold addr_from_bytes. rewrite Hl. cbn [Nat.eqb negb].
    unfold addr_bytes.
    rewrite (skipn_app_exact _ _ _ Hlen), (firstn_app_exact _ _ _ Hlen). cbn [app].
    replace {| a_version := a_version a; a_key := a_key a |} with a by (destruct a; reflexivity).
    replace (eqb_list Z.eqb (addr_checksum sha a) (addr_checksum sha a)) with true
      by (symmetry; apply eqb_list_Z_eq; reflexivity).
    rewrite Hv. reflexivity.
  Qed.

  Lemma from_bytes_ok b a : addr_from_bytes sha b = Ok a ->
    b = addr_bytes sha a /\ a_version a = 0 /\ List.length (a_key a) = 20%nat.
  Proof.
    unfold addr_from_bytes. destruct (Nat.eqb (List.length b) 25) eqn:El; cbn [negb]; [|discriminate].
    apply Nat.eqb_eq in El.
    destruct (skipn 20 b) as [|v chk] eqn:Es; [discriminate|].
    destruct (eqb_list Z.eqb chk _) eqn:Ec; cbn [negb]; [|discriminate].
    destruct (v =? 0) eqn:Ev; cbn [negb]; [|discriminate].
    intros H.
    assert (Ha : a = {| a_version := v; a_key := firstn 20 b |}) by congruence.
    clear H. subst a. cbn [a_version a_key].
    apply eqb_list_Z_eq in Ec. split; [|split; [lia|]].
    - unfold addr_bytes. cbn [a_version a_key]. rewrite <- Ec.
      change ([v] ++ chk) with (v :: chk). rewrite <- Es. symmetry. apply firstn_skipn.
    - rewrite firstn_length. lia.
  Qed.

  Theorem addr_iff s a :
    addr_decode sha s = Ok a <->
    (s = addr_encode sha a /\ a_version a = 0 /\ wf_address a).
  Proof.
    unfold addr_decode, addr_encode. split.
    - destruct (b58dec s) as [b|e] eqn:Ed; [|discriminate].
      intros H. apply from_bytes_ok in H. destruct H as (Hb & Hv & Hl).
      pose proof (dec_bytes s b Ed) as Hbytes.
      apply enc_dec in Ed. subst b. split; [symmetry; exact Ed|]. split; [exact Hv|].
      unfold wf_address. split; [exact Hl|].
      unfold addr_bytes in Hbytes. apply Forall_app in Hbytes. destruct Hbytes as [Hk Hrest].
      split; [exact Hk|]. rewrite Hv. unfold is_byte. lia.
    - intros (Hs & Hv & Hwf). subst s.
      assert (Hbytes : Forall is_byte (addr_bytes sha a)).
      { destruct Hwf as (_ & Hk & Hvb). unfold addr_bytes. apply Forall_app. split; [exact Hk|].
        apply Forall_app. split; [constructor; [exact Hvb|constructor] | apply checksum_bytes]. }
      rewrite dec_enc; [apply from_bytes_addr_bytes; assumption | exact Hbytes |].
      unfold addr_bytes. destruct (a_key a); discriminate.
  Qed.

  (* text <-> value is one-to-one on version-0 addresses *)
  Theorem addr_encode_injective a a' : wf_address a -> wf_address a' ->
    a_version a = 0 -> a_version a' = 0 -> addr_encode sha a = addr_encode sha a' -> a = a'.
  Proof.
    intros Hw Hw' Hv Hv' He.
    assert (H : addr_decode sha (addr_encode sha a) = Ok a) by (apply addr_iff; auto).
    rewrite He in H.
    assert (H' : addr_decode sha (addr_encode sha a') = Ok a') by (apply addr_iff; auto).
    congruence.
  Qed.

  Theorem addr_decode_error_kinds s e : addr_decode sha s = Err e ->
    In e ["ErrInvalidString"; "ErrInvalidChar"; "ErrAddressInvalidLength";
          "ErrAddressInvalidChecksum"; "ErrAddressInvalidVersion"]%string.
  Proof.
    unfold addr_decode. destruct (b58dec s) as [b|e'] eqn:Ed.
    - unfold addr_from_bytes.
      destruct (negb (Nat.eqb (List.length b) 25)); [intros H; injection H as <-; cbn; tauto|].
      destruct (skipn 20 b) as [|v chk]; [intros H; injection H as <-; cbn; tauto|].
      destruct (negb (eqb_list Z.eqb chk _)); [intros H; injection H as <-; cbn; tauto|].
      destruct (negb (v =? 0)); [intros H; injection H as <-; cbn; tauto|discriminate].
    - intros H. injection H as <-. apply dec_error_kind in Ed.
      destruct Ed as [[_ ->]|(_ & _ & ->)]; cbn; tauto.
  Qed.
End AddrProofs.

(* ================= the encoder's buffer estimate =================
   fastBase58EncodingAlphabet allocates n*138/100 + 1 base-58 digits for n
   significant bytes; every n-byte value fits (58^138 > 256^100). *)
Lemma buffer_enough n : 0 <= n -> 256 ^ n < 58 ^ (n * 138 / 100 + 1).
Proof.
  intros Hn. destruct (Z.eq_dec n 0) as [->|Hnz]; [reflexivity|].
  set (k := n * 138 / 100).
  assert (Hk : 0 <= k) by (apply Z.div_pos; lia).
  assert (Hk2 : n * 138 < 100 * (k + 1)).
  { pose proof (Z.div_mod (n * 138) 100 ltac:(lia)) as E.
    pose proof (Z.mod_pos_bound (n * 138) 100 ltac:(lia)) as B. subst k. lia. }
  assert (H0 : 256 ^ 100 < 58 ^ 138) by (apply Z.ltb_lt; vm_compute; reflexivity).
  apply (Z.pow_lt_mono_l_iff _ _ 100); [lia| |lia|].
  - apply Z.pow_nonneg. lia.
  - rewrite <- !Z.pow_mul_r by lia.
    apply Z.lt_trans with (58 ^ (138 * n)).
    + rewrite (Z.mul_comm n 100), !Z.pow_mul_r by lia.
      apply Z.pow_lt_mono_l; [lia|]. split; [apply Z.pow_nonneg; lia|exact H0].
    + apply Z.pow_lt_mono_r; lia.
Qed.
