(* Proofs for C09: the verifier of Model/TxVerify.v reports exactly the first
   failing rule of the documented rule list; hence verify = ok <-> well_formed. *)
From Sky Require Import Base.Uint Model.ArithSpec Gen.Mathutil Model.TxVerify
  Proofs.UintLemmas Proofs.MathutilProofs.
From Coq Require Import Lia ZifyBool MSets.MSetPositive MSets.MSetProperties MSets.MSetFacts.
Open Scope Z_scope.

Module ZS := PositiveSet.
Module ZSP := MSetProperties.WPropertiesOn PositiveSet.E PositiveSet.
Module ZSF := MSetFacts.WFactsOn PositiveSet.E PositiveSet.

(* ------------------------------------------------------------ distinct_count *)

Lemma fold_add_spec : forall (l : list positive) (s : ZS.t),
  let s' := fold_left (fun s x => ZS.add x s) l s in
  (forall y, ZS.In y s' <-> ZS.In y s \/ In y l) /\
  (ZS.cardinal s' <= ZS.cardinal s + List.length l)%nat /\
  (ZS.cardinal s' = (ZS.cardinal s + List.length l)%nat <->
   NoDup l /\ forall x, In x l -> ~ ZS.In x s).
Proof.
  induction l as [|a l IH]; intros s; cbn [fold_left List.length In].
  - split; [intros y; tauto|]. split; [lia|]. split; [intros _; split; [constructor|tauto]|lia].
  - specialize (IH (ZS.add a s)). cbv zeta in IH. destruct IH as (IHin & IHle & IHeq).
    set (s' := fold_left (fun s x => ZS.add x s) l (ZS.add a s)) in *.
    split; [|split].
    + intros y. rewrite IHin. rewrite ZS.add_spec. intuition.
    + destruct (ZSP.In_dec a s) as [Hin|Hnin].
      * rewrite (ZSP.add_cardinal_1 Hin) in IHle. lia.
      * rewrite (ZSP.add_cardinal_2 Hnin) in IHle. lia.
    + destruct (ZSP.In_dec a s) as [Hin|Hnin].
      * rewrite (ZSP.add_cardinal_1 Hin) in IHle, IHeq. split.
        -- intros Hc. lia.
        -- intros [_ Hx]. exfalso. apply (Hx a); [left; reflexivity|exact Hin].
      * rewrite (ZSP.add_cardinal_2 Hnin) in IHle, IHeq. split.
        -- intros Hc. assert (Hc' : ZS.cardinal s' = (S (ZS.cardinal s) + List.length l)%nat) by lia.
           apply IHeq in Hc'. destruct Hc' as [Hnd Hx]. split.
           ++ constructor; [|exact Hnd]. intros Hal. apply (Hx a Hal). apply ZS.add_spec. left; reflexivity.
           ++ intros x [->|Hxl]; [exact Hnin|]. intros Hxs. apply (Hx x Hxl). apply ZS.add_spec. right; exact Hxs.
        -- intros [Hnd Hx]. inversion Hnd as [|? ? Hal Hnd']; subst.
           assert (Hc' : ZS.cardinal s' = (S (ZS.cardinal s) + List.length l)%nat).
           { apply IHeq. split; [exact Hnd'|]. intros x Hxl Hxa. apply ZS.add_spec in Hxa.
             destruct Hxa as [->|Hxs]; [exact (Hal Hxl)|]. apply (Hx x); [right; exact Hxl|exact Hxs]. }
           lia.
Qed.

Lemma zkey_inj a b : zkey a = zkey b -> a = b.
Proof.
  unfold zkey. destruct (0 <=? a) eqn:Ea, (0 <=? b) eqn:Eb; intros H.
  - apply (f_equal Z.pos) in H. rewrite !Z2Pos.id in H by lia. lia.
  - apply (f_equal Z.pos) in H. rewrite !Z2Pos.id in H by lia. lia.
  - apply (f_equal Z.pos) in H. rewrite !Z2Pos.id in H by lia. lia.
  - apply (f_equal Z.pos) in H. rewrite !Z2Pos.id in H by lia. lia.
Qed.

Lemma NoDup_map_zkey l : NoDup (map zkey l) <-> NoDup l.
Proof.
  split; [apply NoDup_map_inv|].
  induction 1 as [|a r Hnin Hnd IH]; cbn [map]; constructor; [|exact IH].
  intros Hin. apply in_map_iff in Hin. destruct Hin as (x & Hx & Hxr). apply zkey_inj in Hx. subst x. contradiction.
Qed.

Lemma fold_left_map_add (l : list Z) s :
  fold_left (fun s x => ZS.add (zkey x) s) l s = fold_left (fun s x => ZS.add x s) (map zkey l) s.
Proof. revert s. induction l as [|a r IH]; intros s; cbn [fold_left map]; [reflexivity|apply IH]. Qed.

Lemma distinct_count_nodup (l : list Z) : distinct_count l = len l <-> NoDup l.
Proof.
  unfold distinct_count, len. rewrite fold_left_map_add.
  destruct (fold_add_spec (map zkey l) ZS.empty) as (_ & _ & Heq). cbv zeta in Heq.
  rewrite ZSP.empty_cardinal, map_length in Heq. cbn [Nat.add] in Heq.
  rewrite <- NoDup_map_zkey.
  split.
  - intros H. apply Nat2Z.inj in H. apply Heq in H. tauto.
  - intros H. f_equal. apply Heq. split; [exact H|]. intros x _ Hx. apply ZSF.empty_iff in Hx. exact Hx.
Qed.

Lemma distinct_count_b (l : list Z) : (distinct_count l =? len l) = true <-> NoDup l.
Proof. rewrite Z.eqb_eq. apply distinct_count_nodup. Qed.

(* ------------------------------------------------------------------ coins_sum *)

Lemma sum_coins_nonneg outs : Forall (fun o => in_u 64 (o_coins o)) outs -> 0 <= sum_coins outs.
Proof.
  induction 1 as [|o r Ho _ IH]; cbn [sum_coins fold_right]; [lia|]. unfold in_u in Ho.
  change (fold_right (fun o a => o_coins o + a) 0 r) with (sum_coins r). lia.
Qed.

Lemma coins_sum_spec : forall outs acc,
  Forall (fun o => in_u 64 (o_coins o)) outs -> in_u 64 acc ->
  coins_sum acc outs =
    if acc + sum_coins outs <? 2 ^ 64 then Val (acc + sum_coins outs, None)
    else Val (0, Some "ErrUint64AddOverflow"%string).
Proof.
  induction outs as [|o r IH]; intros acc Hall Hacc; cbn [coins_sum sum_coins fold_right].
  - unfold in_u in Hacc. replace (acc + 0 <? 2 ^ 64) with true by lia. f_equal. f_equal. lia.
  - inversion Hall as [|? ? Ho Hr]; subst.
    change (fold_right (fun o a => o_coins o + a) 0 r) with (sum_coins r).
    pose proof (sum_coins_nonneg r Hr) as Hnn.
    rewrite AddUint64_spec by assumption. unfold ret_or_err. unfold in_u in *.
    destruct (acc + o_coins o <? 2 ^ 64) eqn:E1; rewrite bind_val; cbn [is_err].
    + rewrite IH by (try assumption; unfold in_u; lia).
      replace (acc + o_coins o + sum_coins r) with (acc + (o_coins o + sum_coins r)) by lia. reflexivity.
    + replace (acc + (o_coins o + sum_coins r) <? 2 ^ 64) with false by lia. reflexivity.
Qed.

Lemma coins_sum_no_panic : forall outs acc, coins_sum acc outs <> Panic.
Proof.
  induction outs as [|o r IH]; intros acc; cbn [coins_sum]; [discriminate|].
  unfold AddUint64. destruct (_ || _); rewrite bind_val; cbn [is_err]; [discriminate|apply IH].
Qed.

(* ------------------------------------------------- ids and identical outputs *)

Lemma NoDup_transfer {A B} (l1 : list A) (l2 : list B) :
  List.length l1 = List.length l2 ->
  (forall i j a b oa ob, nth_error l1 i = Some a -> nth_error l1 j = Some b ->
     nth_error l2 i = Some oa -> nth_error l2 j = Some ob -> (a = b <-> oa = ob)) ->
  (NoDup l1 <-> NoDup l2).
Proof.
  intros Hlen Hc. rewrite !NoDup_nth_error. split; intros H i j Hi Hij.
  - rewrite <- Hlen in Hi.
    destruct (nth_error l2 i) as [oa|] eqn:Ei; [|apply nth_error_None in Ei; lia].
    symmetry in Hij.
    destruct (nth_error l1 i) as [a|] eqn:Ea; [|apply nth_error_None in Ea; lia].
    assert (Hj : (j < List.length l1)%nat) by (rewrite Hlen; apply nth_error_Some; congruence).
    destruct (nth_error l1 j) as [b|] eqn:Eb; [|apply nth_error_None in Eb; lia].
    apply H; [exact Hi|]. rewrite Ea, Eb. f_equal.
    apply (Hc i j a b oa oa Ea Eb Ei Hij). reflexivity.
  - rewrite Hlen in Hi.
    destruct (nth_error l1 i) as [a|] eqn:Ea; [|apply nth_error_None in Ea; lia].
    symmetry in Hij.
    destruct (nth_error l2 i) as [oa|] eqn:Ei; [|apply nth_error_None in Ei; lia].
    assert (Hj : (j < List.length l2)%nat) by (rewrite <- Hlen; apply nth_error_Some; congruence).
    destruct (nth_error l2 j) as [ob|] eqn:Eb; [|apply nth_error_None in Eb; lia].
    apply H; [exact Hi|]. rewrite Ei, Eb. f_equal.
    apply (Hc i j a a oa ob Ea Hij Ei Eb). reflexivity.
Qed.

Lemma out_ids_nodup t : ids_consistent_tx t -> (NoDup (t_out_ids t) <-> NoDup (t_outs t)).
Proof. intros [Hl Hc]. apply NoDup_transfer; assumption. Qed.

(* ------------------------------------------------------------------ FirstFail *)

Lemma FirstFail_fun L : forall e1 e2, FirstFail L e1 -> FirstFail L e2 -> e1 = e2.
Proof.
  induction L as [|[P s] L IH]; intros e1 e2 H1 H2.
  - inversion H1; inversion H2; reflexivity.
  - inversion H1; subst; inversion H2; subst; try reflexivity; try contradiction.
    eapply IH; eassumption.
Qed.

Lemma FirstFail_none L : FirstFail L None <-> Forall (fun p => fst p) L.
Proof.
  induction L as [|[P s] L IH]; split; intros H.
  - constructor.
  - constructor.
  - inversion H; subst. constructor; [assumption|]. apply IH. assumption.
  - inversion H; subst. apply FF_ok; [assumption|]. apply IH. assumption.
Qed.

Lemma sigs_ff signed : forall sigs L r, FirstFail L r ->
  FirstFail (flat_map (sig_rules signed) sigs ++ L)
            (match check_sigs signed sigs with Some e => Some e | None => r end).
Proof.
  induction sigs as [|s sigs IH]; intros L r HL; cbn [flat_map check_sigs app]; [exact HL|].
  unfold sig_rules at 1. cbn [app].
  destruct (sf_null s) eqn:En.
  - destruct signed.
    + apply FF_fail. intros [H|H]; discriminate.
    + apply FF_ok; [left; reflexivity|]. apply FF_ok; [left; reflexivity|]. apply IH, HL.
  - destruct (sf_verr s) as [e|] eqn:Ev.
    + apply FF_ok; [right; reflexivity|]. cbn [err_text]. apply FF_fail. intros [H|H]; discriminate.
    + apply FF_ok; [right; reflexivity|]. apply FF_ok; [right; reflexivity|]. apply IH, HL.
Qed.

Lemma step (c : bool) (P : Prop) s (rest : res error) L :
  (c = true -> ~ P) ->
  (c = false -> P) ->
  (c = false -> exists e, rest = Val e /\ FirstFail L e) ->
  exists e, (if c then E s else rest) = Val e /\ FirstFail ((P, s) :: L) e.
Proof.
  intros Ht Hf Hr. destruct c.
  - exists (Some s). split; [reflexivity|]. apply FF_fail. auto.
  - destruct (Hr eq_refl) as (e & He & Hff). exists e. split; [exact He|]. apply FF_ok; auto.
Qed.

Lemma FF_ok_ex (P : Prop) s L (X : res error) :
  P -> (exists e, X = Val e /\ FirstFail L e) -> exists e, X = Val e /\ FirstFail ((P, s) :: L) e.
Proof. intros HP (e & He & Hff). exists e. split; [exact He|]. apply FF_ok; assumption. Qed.

Lemma len_zero {A} (l : list A) : len l = 0 <-> l = [].
Proof. unfold len. destruct l; cbn [List.length]; split; intros H; try reflexivity; try discriminate; lia. Qed.

Lemma len_eq {A B} (l : list A) (m : list B) : len l = len m <-> List.length l = List.length m.
Proof. unfold len. lia. Qed.

Lemma existsb_zero_coin outs :
  existsb (fun o => o_coins o =? 0) outs = false <-> Forall (fun o => o_coins o <> 0) outs.
Proof.
  induction outs as [|o r IH]; cbn [existsb].
  - split; [constructor|reflexivity].
  - rewrite Bool.orb_false_iff, IH. split.
    + intros [H1 H2]. constructor; [lia|assumption].
    + intros H. inversion H; subst. split; [lia|assumption].
Qed.

Lemma existsb_null sigs :
  existsb sf_null sigs = true <-> Exists (fun s => sf_null s = true) sigs.
Proof.
  rewrite existsb_exists, Exists_exists. tauto.
Qed.

(* the verifier's verdict is the first failing rule of the documented list *)
Lemma verify_first_fail_ex signed t : facts_consistent t ->
  exists e, verify signed t = Val e /\ FirstFail (rule_list signed t) e.
Proof.
  intros (Hids & Hsize & Hinner & Hrange).
  unfold verify, rule_list. cbn [app].
  apply step; [rewrite Z.eqb_eq, len_zero; tauto | rewrite Z.eqb_neq, len_zero; tauto | intros _].
  apply step; [rewrite Z.eqb_eq, len_zero; tauto | rewrite Z.eqb_neq, len_zero; tauto | intros _].
  apply step; [rewrite Bool.negb_true_iff, Z.eqb_neq, len_eq; tauto
              | rewrite Bool.negb_false_iff, Z.eqb_eq, len_eq; tauto | intros Hsl].
  apply step; [unfold MaxUint16; lia | unfold MaxUint16; lia | intros Hs16].
  apply step; [unfold MaxUint16; lia | unfold MaxUint16; lia | intros Ho16].
  apply step; [rewrite Bool.negb_true_iff, <- distinct_count_b; intros H1 H2; congruence
              | rewrite Bool.negb_false_iff, distinct_count_b; tauto | intros _].
  apply step; [lia | lia | intros _].
  apply step; [intros H1 H2; apply existsb_zero_coin in H2; congruence
              | apply existsb_zero_coin | intros _].
  rewrite coins_sum_spec by (try assumption; unfold in_u; lia).
  rewrite Z.add_0_l.
  destruct (sum_coins (t_outs t) <? 2 ^ 64) eqn:Esum; rewrite bind_val; cbn [is_err].
  2:{ exists (Some "Output coins overflow"%string). split; [reflexivity|]. apply FF_fail. lia. }
  assert (Hnover : ~ over t).
  { unfold over. rewrite Bool.negb_false_iff, Z.eqb_eq in Hsl. unfold MaxUint16 in *. lia. }
  destruct (t_size t) as [size|] eqn:Esize.
  2:{ exfalso. apply Hnover. apply Hsize. reflexivity. }
  apply FF_ok_ex; [lia|].
  apply FF_ok_ex; [discriminate|].
  apply step; [rewrite Bool.negb_true_iff, Z.eqb_neq; intros H1 [H2|H2]; [discriminate|injection H2; lia]
              | rewrite Bool.negb_false_iff, Z.eqb_eq; intros ->; right; reflexivity | intros _].
  assert (Hlen_ids : len (t_out_ids t) = len (t_outs t)) by (apply len_eq; apply Hids).
  apply step; [rewrite Bool.negb_true_iff, <- Hlen_ids, <- (out_ids_nodup t Hids), <- distinct_count_b; intros H1 H2; congruence
              | rewrite Bool.negb_false_iff, <- Hlen_ids, distinct_count_b, (out_ids_nodup t Hids); tauto | intros _].
  destruct (t_inner_actual t) as [h|] eqn:Einner.
  2:{ exfalso. apply Hnover. unfold over. destruct Hinner as [Hi _]. specialize (Hi eq_refl). tauto. }
  apply FF_ok_ex; [discriminate|].
  apply step; [rewrite Bool.negb_true_iff, Z.eqb_neq; intros H1 [H2|H2]; [discriminate|injection H2; lia]
              | rewrite Bool.negb_false_iff, Z.eqb_eq; intros ->; right; reflexivity | intros _].
  (* signature loop + final rule *)
  set (final := (signed = true \/ Exists (fun s => sf_null s = true) (t_sigs t),
                 "Unsigned transaction must contain a null signature"%string)).
  set (r := if negb signed && negb (existsb sf_null (t_sigs t))
            then Some "Unsigned transaction must contain a null signature"%string else None).
  assert (Hfinal : FirstFail [final] r).
  { unfold r, final. destruct signed; cbn [negb andb].
    - apply FF_ok; [left; reflexivity|constructor].
    - destruct (existsb sf_null (t_sigs t)) eqn:Eex; cbn [negb].
      + apply FF_ok; [right; apply existsb_null; exact Eex|constructor].
      + apply FF_fail. intros [H|H]; [discriminate|]. apply existsb_null in H. congruence. }
  pose proof (sigs_ff signed (t_sigs t) [final] r Hfinal) as Hff.
  destruct (check_sigs signed (t_sigs t)) as [e|].
  - exists (Some e). split; [reflexivity|exact Hff].
  - exists r. split; [|exact Hff]. unfold r. destruct (negb signed && negb (existsb sf_null (t_sigs t))); reflexivity.
Qed.

Lemma verify_first_fail signed t e : facts_consistent t ->
  (verify signed t = Val e <-> FirstFail (rule_list signed t) e).
Proof.
  intros Hf. destruct (verify_first_fail_ex signed t Hf) as (e' & Hv & Hff). split.
  - intros H. rewrite Hv in H. injection H as <-. exact Hff.
  - intros H. rewrite Hv. f_equal. eapply FirstFail_fun; eassumption.
Qed.

(* the verifier never panics, whatever the facts *)
Lemma verify_total signed t : verify signed t <> Panic.
Proof.
  unfold verify, E.
  repeat match goal with |- (if ?c then _ else _) <> Panic => destruct c; [discriminate|] end.
  destruct (coins_sum 0 (t_outs t)) as [|[c err]] eqn:Ec; [exfalso; exact (coins_sum_no_panic _ _ Ec)|].
  rewrite bind_val. destruct (is_err err); [discriminate|].
  destruct (t_size t); [|discriminate].
  repeat match goal with |- (if ?c then _ else _) <> Panic => destruct c; [discriminate|] end.
  destruct (t_inner_actual t); [|discriminate].
  repeat match goal with |- (if ?c then _ else _) <> Panic => destruct c; [discriminate|] end.
  destruct (check_sigs signed (t_sigs t)); [discriminate|].
  destruct (negb signed && negb (existsb sf_null (t_sigs t))); discriminate.
Qed.

Lemma sig_rules_all signed sigs :
  Forall (fun p : Prop * string => fst p) (flat_map (sig_rules signed) sigs) <->
  Forall (fun s => (signed = false \/ sf_null s = false) /\ (sf_null s = true \/ sf_verr s = None)) sigs.
Proof.
  induction sigs as [|s r IH]; cbn [flat_map].
  - split; constructor.
  - unfold sig_rules at 1. cbn [app]. split; intros H.
    + inversion H as [|? ? Ha H']; subst. inversion H' as [|? ? Hb H'']; subst.
      constructor; [split; assumption|]. apply IH. assumption.
    + inversion H as [|? ? Hab H']; subst. destruct Hab as [Ha Hb].
      constructor; [exact Ha|]. constructor; [exact Hb|]. apply IH. assumption.
Qed.

Lemma rules_all_wf signed t : facts_consistent t ->
  (Forall (fun p : Prop * string => fst p) (rule_list signed t) <-> well_formed signed t).
Proof.
  intros (Hids & Hsize & Hinner & Hrange). unfold rule_list, well_formed.
  rewrite Forall_app. rewrite Forall_app. rewrite sig_rules_all.
  split.
  - intros (H14 & Hs & Hfin).
    repeat match goal with H : Forall _ (_ :: _) |- _ => inversion H; clear H; subst end.
    cbn [fst] in *.
    repeat match goal with |- _ /\ _ => split end; try assumption.
    + destruct (t_size t); [|congruence]. intuition congruence.
    + destruct (t_inner_actual t); [|congruence]. intuition congruence.
    + destruct signed.
      * eapply Forall_impl; [|exact Hs]. cbn beta. intros s [[Hq1|Hq1] [Hq2|Hq2]]; try discriminate; split; congruence.
      * split; [eapply Forall_impl; [|exact Hs]; cbn beta; tauto|].
        match goal with H : false = true \/ _ |- _ => destruct H as [H|H]; [discriminate|exact H] end.
  - intros (Hi & Ho & Hl & Hni & Hno & Hty & Hz & Hsum & Hsz & Hinn & Hsig).
    assert (Hnover : ~ over t).
    { intros Hov. apply Hsize in Hov. congruence. }
    unfold over in Hnover.
    split; [|split].
    + unfold MaxUint16 in *.
      repeat (apply Forall_cons; [cbn [fst]; first [assumption | lia | congruence | right; assumption]|]).
      apply Forall_nil.
    + destruct signed.
      * eapply Forall_impl; [|exact Hsig]. cbn beta. intros s [H1 H2]. split; right; assumption.
      * destruct Hsig as [Hsig _]. eapply Forall_impl; [|exact Hsig]. cbn beta. intros s H. split; [left; reflexivity|exact H].
    + constructor; [|constructor]. cbn [fst]. destruct signed; [left; reflexivity|right; apply Hsig].
Qed.

Lemma verify_iff signed t : facts_consistent t ->
  (verify signed t = Val None <-> well_formed signed t).
Proof.
  intros Hf. rewrite (verify_first_fail signed t None Hf), FirstFail_none. apply rules_all_wf. exact Hf.
Qed.

(* the count clauses: an accepted transaction has at most 65535 signatures /
   inputs / outputs, and a well-formed one with exactly 65535 is accepted
   (verify_iff) *)
Lemma verify_ok_counts signed t : facts_consistent t -> verify signed t = Val None ->
  len (t_sigs t) = len (t_ins t) /\ 1 <= len (t_ins t) <= MaxUint16 /\ 1 <= len (t_outs t) <= MaxUint16.
Proof.
  intros Hf H. pose proof Hf as (_ & Hsize & _ & _).
  apply (verify_iff signed t Hf) in H. destruct H as (Hi & Ho & Hl & _ & _ & _ & _ & _ & Hsz & _).
  assert (Hno : ~ over t) by (intros Hov; apply Hsize in Hov; congruence).
  unfold over, MaxUint16 in *. split; [apply len_eq; exact Hl|].
  assert (len (t_ins t) <> 0) by (intros Hc; apply len_zero in Hc; contradiction).
  assert (len (t_outs t) <> 0) by (intros Hc; apply len_zero in Hc; contradiction).
  unfold len in *. lia.
Qed.

(* ------------------------------------------- decidable form of well_formed *)

Lemma nodupb_spec {A} (eqb : A -> A -> bool) (l : list A) :
  (forall a b, eqb a b = true <-> a = b) -> (nodupb eqb l = true <-> NoDup l).
Proof.
  intros Heq. induction l as [|a r IH]; cbn [nodupb].
  - split; [constructor|reflexivity].
  - rewrite Bool.andb_true_iff, Bool.negb_true_iff, IH. split.
    + intros [Hex Hnd]. constructor; [|exact Hnd]. intros Hin.
      assert (existsb (eqb a) r = true) as Ht by (apply existsb_exists; exists a; split; [exact Hin|apply Heq; reflexivity]).
      congruence.
    + intros H. inversion H as [|? ? Hnin Hnd]; subst. split; [|exact Hnd].
      destruct (existsb (eqb a) r) eqn:Eex; [|reflexivity].
      apply existsb_exists in Eex. destruct Eex as (b & Hb & Hab). apply Heq in Hab. subst b. contradiction.
Qed.

Lemma txout_eqb_spec a b : txout_eqb a b = true <-> a = b.
Proof.
  unfold txout_eqb. destruct a as [a1 a2 a3], b as [b1 b2 b3]. cbn [o_addr o_coins o_hours].
  rewrite !Bool.andb_true_iff, !Z.eqb_eq. split.
  - intros [[-> ->] ->]. reflexivity.
  - intros H. injection H as -> -> ->. tauto.
Qed.

Lemma opt_eqb_spec o z : opt_eqb o z = true <-> o = Some z.
Proof.
  unfold opt_eqb. destruct o as [x|]; [rewrite Z.eqb_eq|]; split; intros H; try congruence; try discriminate.
Qed.

Lemma wf_core_spec (bi bo : unit -> bool) signed t :
  (bi tt = true <-> NoDup (t_ins t)) -> (bo tt = true <-> NoDup (t_outs t)) ->
  (wf_core bi bo signed t = true <-> well_formed signed t).
Proof.
  intros Hbi Hbo.
  assert (Hc : wf_core bi bo signed t = wf_cheap signed t && bi tt && bo tt).
  { unfold wf_core. destruct (wf_cheap signed t), (bi tt), (bo tt); reflexivity. }
  rewrite Hc. clear Hc.
  unfold wf_cheap, well_formed.
  rewrite !Bool.andb_true_iff, !Bool.negb_true_iff, !Z.eqb_neq, !len_zero, Z.eqb_eq, len_eq,
    Hbi, Hbo, Z.eqb_eq, Z.ltb_lt, !opt_eqb_spec, !forallb_forall.
  assert (Hz : (forall x, In x (t_outs t) -> negb (o_coins x =? 0) = true) <-> Forall (fun o => o_coins o <> 0) (t_outs t)).
  { rewrite Forall_forall. split; intros H x Hx; specialize (H x Hx); lia. }
  rewrite Hz.
  assert (Hs : (if signed
     then forallb (fun s => negb (sf_null s) && negb (is_err (sf_verr s))) (t_sigs t)
     else forallb (fun s => sf_null s || negb (is_err (sf_verr s))) (t_sigs t) && existsb sf_null (t_sigs t)) = true <->
    (if signed
     then Forall (fun s => sf_null s = false /\ sf_verr s = None) (t_sigs t)
     else Forall (fun s => sf_null s = true \/ sf_verr s = None) (t_sigs t) /\
          Exists (fun s => sf_null s = true) (t_sigs t))).
  { destruct signed.
    - rewrite forallb_forall, Forall_forall. split; intros H s Hs; specialize (H s Hs).
      + apply Bool.andb_true_iff in H. destruct H as [H1 H2]. destruct (sf_null s), (sf_verr s); cbn in *; try discriminate. tauto.
      + destruct H as [-> ->]. reflexivity.
    - rewrite Bool.andb_true_iff, forallb_forall, Forall_forall, existsb_null. split; intros [H He]; (split; [|exact He]); intros s Hs; specialize (H s Hs).
      + destruct (sf_null s), (sf_verr s); cbn in *; try discriminate; tauto.
      + destruct H as [->| ->]; [reflexivity|]. destruct (sf_null s); reflexivity. }
  rewrite Hs. tauto.
Qed.

Lemma well_formed_b_spec signed t : well_formed_b signed t = true <-> well_formed signed t.
Proof.
  apply wf_core_spec; cbv beta; [apply (nodupb_spec Z.eqb _ Z.eqb_eq)|apply (nodupb_spec txout_eqb _ txout_eqb_spec)].
Qed.

Lemma pair2_nonneg x y : 0 <= x -> 0 <= y -> 0 <= pair2 x y.
Proof. unfold pair2. nia. Qed.

Lemma pair2_inj x y x' y' : 0 <= x -> 0 <= y -> 0 <= x' -> 0 <= y' ->
  pair2 x y = pair2 x' y' -> x = x' /\ y = y'.
Proof.
  unfold pair2. intros Hx Hy Hx' Hy' H.
  assert (Hs : x + y = x' + y').
  { destruct (Z.lt_trichotomy (x + y) (x' + y')) as [Hlt|[Heq|Hgt]]; [exfalso; nia|exact Heq|exfalso; nia]. }
  split; nia.
Qed.

Lemma out_code_inj a b :
  0 <= o_addr a -> 0 <= o_coins a -> 0 <= o_hours a -> 0 <= o_addr b -> 0 <= o_coins b -> 0 <= o_hours b ->
  out_code a = out_code b -> a = b.
Proof.
  unfold out_code. destruct a as [a1 a2 a3], b as [b1 b2 b3]. cbn [o_addr o_coins o_hours].
  intros Ha1 Ha2 Ha3 Hb1 Hb2 Hb3 H.
  apply pair2_inj in H; try assumption; try (apply pair2_nonneg; assumption).
  destruct H as [H ->]. apply pair2_inj in H; try assumption. destruct H as [-> ->]. reflexivity.
Qed.

Lemma NoDup_map_inj_on {A B} (f : A -> B) (l : list A) :
  (forall x y, In x l -> In y l -> f x = f y -> x = y) -> NoDup l -> NoDup (map f l).
Proof.
  induction l as [|a r IH]; intros Hinj Hnd; cbn [map]; [constructor|].
  inversion Hnd as [|? ? Hnin Hnd']; subst. constructor.
  - intros Hin. apply in_map_iff in Hin. destruct Hin as (x & Hfx & Hx).
    assert (x = a) by (apply Hinj; [right; exact Hx|left; reflexivity|exact Hfx]). subst x. contradiction.
  - apply IH; [|exact Hnd']. intros x y Hx Hy. apply Hinj; right; assumption.
Qed.

Lemma well_formed_fast_b_spec signed t :
  Forall (fun o => 0 <= o_addr o /\ 0 <= o_coins o /\ 0 <= o_hours o) (t_outs t) ->
  (well_formed_fast_b signed t = true <-> well_formed signed t).
Proof.
  intros Hr. apply wf_core_spec; cbv beta; [apply distinct_count_b|].
  replace (len (t_outs t)) with (len (map out_code (t_outs t))) by (unfold len; rewrite map_length; reflexivity).
  rewrite distinct_count_b. split; [apply NoDup_map_inv|].
  apply NoDup_map_inj_on. intros x y Hx Hy. rewrite Forall_forall in Hr.
  destruct (Hr x Hx) as (? & ? & ?), (Hr y Hy) as (? & ? & ?). apply out_code_inj; assumption.
Qed.

(* ----------------------------------------------- VerifyInputSignatures *)

Lemma vis_loop_ok : forall sigs ux, List.length sigs = List.length ux ->
  (vis_loop sigs ux = None <->
   Forall2 (fun s u => sf_null s = false /\ sf_verr s = None /\ sf_addr s = snd u) sigs ux).
Proof.
  induction sigs as [|s sr IH]; intros [|[h a] ur] Hl; cbn [List.length] in Hl; try discriminate; cbn [vis_loop].
  - split; [constructor|reflexivity].
  - injection Hl as Hl. specialize (IH ur Hl). split.
    + intros H. destruct (sf_null s) eqn:En; [discriminate|].
      destruct (is_err (sf_verr s) || negb (sf_addr s =? a)) eqn:Ec; [discriminate|].
      apply Bool.orb_false_iff in Ec. destruct Ec as [E1 E2].
      constructor; [|apply IH; exact H]. cbn [snd]. destruct (sf_verr s); [discriminate|]. split; [exact En|]. split; [reflexivity|lia].
    + intros H. inversion H as [|? ? ? ? (H1 & H2 & H3) H']; subst. cbn [snd] in H3.
      rewrite H1, H2, H3, Z.eqb_refl. cbn. apply IH. exact H'.
Qed.

(* under the caller's precondition (the prelude holds: same inputs, correct
   inner hash) the result is nil exactly when every input is signed, the
   signature is valid and recovers the owner's address *)
Lemma verify_input_sigs_iff t ux :
  List.length (t_ins t) = List.length ux -> List.length (t_ins t) = List.length (t_sigs t) ->
  t_inner_actual t = Some (t_inner t) -> t_ins t = map fst ux ->
  exists e, verify_input_sigs t ux = Val e /\
    (e = None <-> Forall2 (fun s u => sf_null s = false /\ sf_verr s = None /\ sf_addr s = snd u) (t_sigs t) ux).
Proof.
  intros H1 H2 H3 H4. unfold verify_input_sigs.
  replace (len (t_ins t) =? len ux) with true by (symmetry; apply Z.eqb_eq, len_eq; exact H1).
  replace (len (t_ins t) =? len (t_sigs t)) with true by (symmetry; apply Z.eqb_eq, len_eq; exact H2).
  rewrite H3, Z.eqb_refl. cbn [negb].
  assert (Heq : eqb_list Z.eqb (t_ins t) (map fst ux) = true).
  { rewrite <- H4. clear. induction (t_ins t) as [|a r IH]; cbn [eqb_list]; [reflexivity|]. rewrite Z.eqb_refl, IH. reflexivity. }
  rewrite Heq. cbn [negb]. eexists. split; [reflexivity|]. apply vis_loop_ok. congruence.
Qed.

(* -------------------- the evaluated premise implies the theorems' premise *)
Lemma nth_error_combine {A B} : forall (l1 : list A) (l2 : list B) n a b,
  nth_error l1 n = Some a -> nth_error l2 n = Some b -> nth_error (combine l1 l2) n = Some (a, b).
Proof.
  induction l1 as [|x l1 IH]; intros [|y l2] [|n] a b H1 H2; cbn in *; try discriminate.
  - injection H1 as ->. injection H2 as ->. reflexivity.
  - apply IH; assumption.
Qed.

Lemma ids_pairs_ok_spec : forall ids outs, ids_pairs_ok ids outs = true ->
  List.length ids = List.length outs /\
  forall i j a b oa ob,
    nth_error ids i = Some a -> nth_error ids j = Some b ->
    nth_error outs i = Some oa -> nth_error outs j = Some ob -> (a = b <-> oa = ob).
Proof.
  induction ids as [|a0 ids IH]; intros [|o0 outs] H; cbn [ids_pairs_ok] in H; try discriminate.
  - split; [reflexivity|]. intros [|i] j a b oa ob H1; discriminate.
  - apply Bool.andb_true_iff in H. destruct H as [Hhead Hrest]. destruct (IH outs Hrest) as [Hlen Hall].
    split; [cbn; congruence|].
    assert (Hh : forall n b ob, nth_error ids n = Some b -> nth_error outs n = Some ob -> (a0 = b <-> o0 = ob)).
    { intros n b ob Hb Hob. pose proof (nth_error_combine _ _ _ _ _ Hb Hob) as Hc. apply nth_error_In in Hc.
      rewrite forallb_forall in Hhead. specialize (Hhead _ Hc). cbn [fst snd] in Hhead.
      apply Bool.eqb_prop in Hhead. rewrite <- Z.eqb_eq, <- txout_eqb_spec, Hhead. tauto. }
    intros [|i] [|j] a b oa ob H1 H2 H3 H4; cbn [nth_error] in *.
    + injection H1 as <-. injection H2 as <-. injection H3 as <-. injection H4 as <-. tauto.
    + injection H1 as <-. injection H3 as <-. eapply Hh; eassumption.
    + injection H2 as <-. injection H4 as <-. destruct (Hh i a oa H1 H3) as [Ha Hb]. split; intros Hx; symmetry; [apply Ha|apply Hb]; symmetry; exact Hx.
    + eapply Hall; eassumption.
Qed.

Lemma facts_consistent_b_spec cap t :
  len (t_outs t) <= cap -> facts_consistent_b cap t = true -> facts_consistent t.
Proof.
  intros Hcap H. unfold facts_consistent_b in H.
  replace (cap <? len (t_outs t)) with false in H by lia.
  apply Bool.andb_true_iff in H. destruct H as [H Hr].
  apply Bool.andb_true_iff in H. destruct H as [H Hi].
  apply Bool.andb_true_iff in H. destruct H as [Hids Hs].
  apply Bool.eqb_prop in Hs. apply Bool.eqb_prop in Hi.
  unfold facts_consistent. split; [apply ids_pairs_ok_spec; exact Hids|]. split; [|split].
  - unfold over, overb, MaxUint16 in *. destruct (t_size t); cbn [is_none] in Hs.
    + split; [discriminate|]. intros Ho. exfalso. lia.
    + split; [intros _|reflexivity]. lia.
  - unfold MaxUint16 in *. destruct (t_inner_actual t); cbn [is_none] in Hi.
    + split; [discriminate|]. intros Ho. exfalso. lia.
    + split; [intros _|reflexivity]. lia.
  - apply Forall_forall. intros o Ho. rewrite forallb_forall in Hr. specialize (Hr o Ho).
    unfold in_ub in Hr. unfold in_u. lia.
Qed.
