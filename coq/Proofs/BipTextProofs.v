(* Proofs/BipTextProofs.v — text-level round trips of Model/Bip.v:
   split/join, the BIP32 path grammar (print then parse), and BIP39 sentences
   (words <-> indices, join with single spaces then split). *)
From Coq Require Import ZArith List Bool Lia ZifyBool.
From Sky Require Import Model.Secp Model.Bip.
Import ListNotations.
Open Scope Z_scope.

(* ------------------------------------------------------------------ A. split / join *)

Lemma split_on_app_nosep : forall sep w s cur,
  ~ In sep w -> split_on sep (w ++ s) cur = split_on sep s (rev w ++ cur).
Proof.
  intros sep w; induction w as [|b w IH]; intros s cur Hn.
  - reflexivity.
  - cbn [app split_on].
    destruct (b =? sep) eqn:E.
    + exfalso. apply Hn. left. lia.
    + rewrite IH.
      * cbn [rev]. rewrite <- app_assoc. reflexivity.
      * intro Hin. apply Hn. right. exact Hin.
Qed.

Lemma split_on_nosep : forall sep w cur,
  ~ In sep w -> split_on sep w cur = [rev cur ++ w].
Proof.
  intros sep w cur Hn.
  pose proof (split_on_app_nosep sep w [] cur Hn) as H.
  rewrite app_nil_r in H. rewrite H.
  cbn [split_on]. rewrite rev_app_distr, rev_involutive. reflexivity.
Qed.

Lemma split_on_join : forall sep ws,
  ws <> [] -> Forall (fun w => ~ In sep w) ws ->
  forall cur, split_on sep (join sep ws) cur =
              match ws with [] => [] | w :: r => (rev cur ++ w) :: r end.
Proof.
  intros sep ws; induction ws as [|w r IH]; intros Hne HF cur.
  - congruence.
  - inversion HF as [|? ? Hw Hr]; subst.
    destruct r as [|w' r'].
    + cbn [join]. apply split_on_nosep. exact Hw.
    + change (join sep (w :: w' :: r')) with (w ++ sep :: join sep (w' :: r')).
      rewrite split_on_app_nosep by exact Hw.
      cbn [split_on]. rewrite Z.eqb_refl.
      rewrite rev_app_distr, rev_involutive.
      rewrite IH; [reflexivity | discriminate | exact Hr].
Qed.

Lemma split_join : forall sep ws,
  ws <> [] -> Forall (fun w => ~ In sep w) ws -> split sep (join sep ws) = ws.
Proof.
  intros sep ws Hne HF. unfold split.
  rewrite split_on_join by assumption.
  destruct ws as [|w r]; [congruence | reflexivity].
Qed.

(* ------------------------------------------------------------------ B. paths *)

Lemma dec_val_app : forall ds r a, dec_val a (ds ++ r) = dec_val (dec_val a ds) r.
Proof.
  induction ds as [|d ds IH]; intros r a; cbn [app dec_val]; [reflexivity | apply IH].
Qed.

Lemma dec_digits_gen : forall fuel v acc,
  (0 < fuel)%nat -> 0 <= v < 10 ^ Z.of_nat fuel ->
  exists ds, dec_digits fuel v acc = ds ++ acc /\
             forallb is_digit ds = true /\ ds <> [] /\ dec_val 0 ds = v.
Proof.
  induction fuel as [|f IH]; intros v acc Hf Hv.
  - lia.
  - cbn [dec_digits]. destruct (v <? 10) eqn:E.
    + exists [48 + v]. split; [reflexivity|]. split; [|split].
      * cbn [forallb]. unfold is_digit. lia.
      * discriminate.
      * cbn [dec_val]. lia.
    + assert (Hpow : 10 ^ Z.of_nat (S f) = 10 * 10 ^ Z.of_nat f)
        by (rewrite Nat2Z.inj_succ, Z.pow_succ_r; lia).
      assert (Hq : 0 <= v / 10 < 10 ^ Z.of_nat f).
      { split; [apply Z.div_pos; lia | apply Z.div_lt_upper_bound; lia]. }
      assert (Hq1 : 1 <= v / 10) by (apply Z.div_le_lower_bound; lia).
      assert (Hf' : (0 < f)%nat).
      { destruct f as [|f']; [|lia]. cbn in Hq. lia. }
      destruct (IH (v / 10) ((48 + v mod 10) :: acc) Hf' Hq) as [ds [He [Hd [Hn Hval]]]].
      pose proof (Z.mod_pos_bound v 10 ltac:(lia)) as Hm.
      pose proof (Z.div_mod v 10 ltac:(lia)) as Hdm.
      exists (ds ++ [48 + v mod 10]). split; [|split; [|split]].
      * rewrite He, <- app_assoc. reflexivity.
      * rewrite forallb_app, Hd. cbn [forallb]. unfold is_digit. lia.
      * intro H. apply app_eq_nil in H. destruct H as [_ H]. discriminate.
      * rewrite dec_val_app, Hval. cbn [dec_val]. lia.
Qed.

Lemma dec_digits_spec : forall v, 0 <= v < 10 ^ 12 ->
  forallb is_digit (dec_digits 12 v []) = true /\
  dec_val 0 (dec_digits 12 v []) = v /\
  dec_digits 12 v [] <> [].
Proof.
  intros v Hv.
  assert (H12 : 10 ^ Z.of_nat 12 = 10 ^ 12) by reflexivity.
  destruct (dec_digits_gen 12 v [] ltac:(lia) ltac:(lia)) as [ds [He [Hd [Hn Hval]]]].
  rewrite app_nil_r in He. rewrite He. auto.
Qed.

(* the text of one node: digits, then an apostrophe when hardened *)
Lemma print_node_spec : forall v, 0 <= v < 4294967296 ->
  exists ds, forallb is_digit ds = true /\ ds <> [] /\
             dec_val 0 ds = (if hardened <=? v then v - hardened else v) /\
             print_node v = (if hardened <=? v then ds ++ [39] else ds).
Proof.
  intros v Hv. unfold print_node.
  assert (H12 : 10 ^ 12 = 1000000000000) by reflexivity.
  destruct (hardened <=? v) eqn:E.
  - destruct (dec_digits_spec (v - hardened)) as [Hd [Hval Hne]].
    { unfold hardened in *. lia. }
    exists (dec_digits 12 (v - hardened) []). auto.
  - destruct (dec_digits_spec v) as [Hd [Hval Hne]].
    { lia. }
    exists (dec_digits 12 v []). auto.
Qed.

Lemma is_suffix_last : forall y b, is_suffix [39] (y ++ [b]) = (39 =? b).
Proof.
  intros y b. unfold is_suffix. rewrite rev_app_distr.
  cbn [rev app is_prefix]. apply andb_true_r.
Qed.

Lemma digits_not_suffix : forall ds,
  ds <> [] -> forallb is_digit ds = true -> is_suffix [39] ds = false.
Proof.
  intros ds Hne Hd. destruct (exists_last Hne) as [y [b Hy]]. subst ds.
  rewrite is_suffix_last. rewrite forallb_app in Hd.
  apply andb_true_iff in Hd. destruct Hd as [_ Hb].
  cbn [forallb] in Hb. unfold is_digit in Hb. lia.
Qed.

Lemma parse_node_soft : forall ds,
  ds <> [] -> forallb is_digit ds = true -> 0 <= dec_val 0 ds < hardened ->
  parse_node ds = inr (dec_val 0 ds).
Proof.
  intros ds Hne Hd Hv. unfold parse_node. cbv zeta.
  rewrite (digits_not_suffix ds Hne Hd).
  destruct ds as [|d r]; [congruence|].
  rewrite Hd. cbn [negb].
  destruct (4294967296 <=? dec_val 0 (d :: r)) eqn:E1; [unfold hardened in *; lia|].
  destruct (hardened <=? dec_val 0 (d :: r)) eqn:E2; [lia|].
  reflexivity.
Qed.

Lemma parse_node_hard : forall ds,
  ds <> [] -> forallb is_digit ds = true -> 0 <= dec_val 0 ds < hardened ->
  parse_node (ds ++ [39]) = inr (dec_val 0 ds + hardened).
Proof.
  intros ds Hne Hd Hv. unfold parse_node. cbv zeta.
  rewrite is_suffix_last, Z.eqb_refl, removelast_last.
  destruct ds as [|d r]; [congruence|].
  rewrite Hd. cbn [negb].
  destruct (4294967296 <=? dec_val 0 (d :: r)) eqn:E1; [unfold hardened in *; lia|].
  destruct (hardened <=? dec_val 0 (d :: r)) eqn:E2; [lia|].
  reflexivity.
Qed.

Lemma parse_node_print : forall v, 0 <= v < 4294967296 -> parse_node (print_node v) = inr v.
Proof.
  intros v Hv. destruct (print_node_spec v Hv) as [ds [Hd [Hne [Hval Hp]]]].
  rewrite Hp. destruct (hardened <=? v) eqn:E.
  - rewrite parse_node_hard; [rewrite Hval; f_equal; lia | assumption | assumption |].
    rewrite Hval. unfold hardened in *. lia.
  - rewrite parse_node_soft; [rewrite Hval; reflexivity | assumption | assumption |].
    rewrite Hval. unfold hardened in *. lia.
Qed.

Lemma print_node_no_slash : forall v, 0 <= v < 4294967296 -> ~ In 47 (print_node v).
Proof.
  intros v Hv Hin. destruct (print_node_spec v Hv) as [ds [Hd [Hne [Hval Hp]]]].
  rewrite Hp in Hin. rewrite forallb_forall in Hd.
  assert (Hds : ~ In 47 ds).
  { intro H. apply Hd in H. unfold is_digit in H. lia. }
  destruct (hardened <=? v).
  - apply in_app_or in Hin. destruct Hin as [Hin | [Hin | []]]; [auto | discriminate].
  - auto.
Qed.

Lemma print_node_not_m : forall v, 0 <= v < 4294967296 -> bytes_eq (print_node v) [109] = false.
Proof.
  intros v Hv. destruct (print_node_spec v Hv) as [ds [Hd [Hne [Hval Hp]]]].
  rewrite Hp. destruct ds as [|d r]; [congruence|].
  cbn [forallb] in Hd. apply andb_true_iff in Hd. destruct Hd as [Hd _].
  unfold is_digit in Hd.
  assert (Ed : (d =? 109) = false) by lia.
  destruct (hardened <=? v); cbn [app bytes_eq]; rewrite Ed; reflexivity.
Qed.

Lemma parse_nodes_print : forall vs,
  Forall (fun v => 0 <= v < 4294967296) vs -> parse_nodes (List.map print_node vs) = inr vs.
Proof.
  intros vs HF. induction HF as [|v vs Hv HF IH]; [reflexivity|].
  cbn [List.map parse_nodes].
  rewrite (print_node_not_m v Hv), (parse_node_print v Hv), IH. reflexivity.
Qed.

Lemma path_roundtrip : forall vs,
  Forall (fun v => 0 <= v < 4294967296) vs -> parse_path (print_path vs) = inr vs.
Proof.
  intros vs HF. unfold parse_path, print_path.
  rewrite split_join.
  - change (parse_nodes (List.map print_node vs) = inr vs).
    apply parse_nodes_print. exact HF.
  - discriminate.
  - constructor.
    + intros [H | []]. discriminate.
    + apply Forall_forall. intros x Hin. apply in_map_iff in Hin.
      destruct Hin as [v [Hx Hin]]. subst x.
      apply print_node_no_slash.
      rewrite Forall_forall in HF. apply HF. exact Hin.
Qed.

(* ------------------------------------------------------------------ C. sentences *)

Lemma bytes_eq_iff : forall x w, bytes_eq x w = true <-> x = w.
Proof.
  induction x as [|a x IH]; intros [|b w]; cbn [bytes_eq]; split; intro H;
    try reflexivity; try discriminate.
  - apply andb_true_iff in H. destruct H as [H1 H2]. apply IH in H2.
    f_equal; [lia | assumption].
  - inversion H; subst. rewrite Z.eqb_refl. cbn [andb]. apply IH. reflexivity.
Qed.

Lemma bytes_eq_refl : forall w, bytes_eq w w = true.
Proof. intros w. apply bytes_eq_iff. reflexivity. Qed.

(* every white-space sequence starts, and ends, with a byte that is not a lower-case letter *)
Definition nonletter_head (w : list Z) : bool :=
  match w with
  | h :: _ => negb ((97 <=? h) && (h <=? 122))
  | [] => false
  end.

Lemma space_seqs_ok :
  forallb (fun w => nonletter_head w && nonletter_head (rev w)) space_seqs = true.
Proof. reflexivity. Qed.

Lemma prefix_nonletter : forall w a s,
  nonletter_head w = true -> 97 <= a <= 122 -> is_prefix w (a :: s) = false.
Proof.
  intros w a s Hw Ha. destruct w as [|h t]; [discriminate|].
  cbn [is_prefix]. unfold nonletter_head in Hw.
  destruct (h =? a) eqn:E; [lia | reflexivity].
Qed.

Lemma surrounding_space_false : forall s a t z u,
  s = a :: t -> rev s = z :: u -> 97 <= a <= 122 -> 97 <= z <= 122 ->
  surrounding_space s = false.
Proof.
  intros s a t z u Hs Hr Ha Hz. unfold surrounding_space.
  pose proof space_seqs_ok as Hok. rewrite forallb_forall in Hok.
  apply orb_false_iff. split.
  - destruct (existsb (fun w => is_prefix w s) space_seqs) eqn:E; [|reflexivity].
    apply existsb_exists in E. destruct E as [w [Hin Hp]].
    specialize (Hok w Hin). apply andb_true_iff in Hok. destruct Hok as [H1 _].
    rewrite Hs, (prefix_nonletter w a t H1 Ha) in Hp. discriminate.
  - destruct (existsb (fun w => is_suffix w s) space_seqs) eqn:E; [|reflexivity].
    apply existsb_exists in E. destruct E as [w [Hin Hp]].
    specialize (Hok w Hin). apply andb_true_iff in Hok. destruct Hok as [_ H2].
    unfold is_suffix in Hp.
    rewrite Hr, (prefix_nonletter (rev w) z u H2 Hz) in Hp. discriminate.
Qed.

Lemma join_head : forall sep a w r, exists t, join sep ((a :: w) :: r) = a :: t.
Proof.
  intros sep a w r. destruct r as [|w' r']; cbn [join app]; eexists; reflexivity.
Qed.

Lemma join_last : forall sep ws,
  ws <> [] -> Forall (fun w => w <> [] /\ Forall (fun b => 97 <= b <= 122) w) ws ->
  exists t z, join sep ws = t ++ [z] /\ 97 <= z <= 122.
Proof.
  intros sep ws; induction ws as [|w r IH]; intros Hne HF; [congruence|].
  inversion HF as [|? ? Hw0 Hr]; subst. destruct Hw0 as [Hwne Hw].
  destruct r as [|w' r'].
  - cbn [join]. destruct (exists_last Hwne) as [t [z Ht]]. subst w.
    exists t, z. split; [reflexivity|].
    apply Forall_app in Hw. destruct Hw as [_ Hz]. inversion Hz; assumption.
  - destruct IH as [t [z [Hj Hz]]]; [discriminate | exact Hr |].
    exists (w ++ sep :: t), z.
    change (join sep (w :: w' :: r')) with (w ++ sep :: join sep (w' :: r')).
    rewrite Hj. split; [|assumption].
    rewrite <- app_assoc. reflexivity.
Qed.

Section Sentences.
  Variable sha256 : list Z -> list Z.
  Variable words : list (list Z).

  Lemma index_of_nth : forall ws i w,
    NoDup ws -> nth_error ws (Z.to_nat i) = Some w -> 0 <= i ->
    forall base, index_of w ws base = Some (base + i).
  Proof.
    induction ws as [|x r IH]; intros i w Hnd Hnth Hi base.
    - destruct (Z.to_nat i); discriminate.
    - inversion Hnd as [|? ? Hnin Hnd']; subst.
      cbn [index_of].
      destruct (Z.to_nat i) as [|k] eqn:Ek.
      + cbn [nth_error] in Hnth. inversion Hnth; subst.
        assert (Hi0 : i = 0) by lia. subst i.
        rewrite bytes_eq_refl. f_equal; lia.
      + cbn [nth_error] in Hnth.
        assert (Hk : k = Z.to_nat (i - 1)) by lia. subst k.
        destruct (bytes_eq x w) eqn:Eb.
        * apply bytes_eq_iff in Eb. subst x. exfalso. apply Hnin.
          eapply nth_error_In; eauto.
        * rewrite (IH (i - 1) w Hnd' Hnth) by lia. f_equal; lia.
  Qed.

  Lemma word_index_index_word : forall i w,
    NoDup words -> index_word words i = Some w -> word_index words w = Some i.
  Proof.
    intros i w Hnd H. unfold index_word in H.
    destruct ((0 <=? i) && (i <? Z.of_nat (List.length words))) eqn:E; [|discriminate].
    unfold word_index. rewrite (index_of_nth words i w Hnd H) by lia. reflexivity.
  Qed.

  Lemma map_opt_roundtrip : forall idx ws,
    NoDup words -> map_opt (index_word words) idx = Some ws ->
    map_opt (word_index words) ws = Some idx.
  Proof.
    induction idx as [|i idx IH]; intros ws Hnd H.
    - cbn [map_opt] in H. inversion H. reflexivity.
    - cbn [map_opt] in H.
      destruct (index_word words i) as [w|] eqn:Ei; [|discriminate].
      destruct (map_opt (index_word words) idx) as [ws'|] eqn:Er; [|discriminate].
      inversion H; subst. cbn [map_opt].
      rewrite (word_index_index_word i w Hnd Ei), (IH ws' Hnd eq_refl). reflexivity.
  Qed.

  Lemma sentence_roundtrip : forall ws,
    ws <> [] ->
    Forall (fun w => w <> [] /\ Forall (fun b => 97 <= b <= 122) w) ws ->
    surrounding_space (join 32 ws) = false /\
    split 32 (join 32 ws) = ws /\
    existsb (fun w => match w with [] => true | _ => false end) ws = false.
  Proof.
    intros ws Hne HF. split; [|split].
    - destruct (join_last 32 ws Hne HF) as [u [z [Hu Hz]]].
      destruct ws as [|w r]; [congruence|].
      assert (Hw0 : w <> [] /\ Forall (fun b => 97 <= b <= 122) w) by (inversion HF; assumption).
      destruct Hw0 as [Hwne Hw]. destruct w as [|a w']; [congruence|].
      destruct (join_head 32 a w' r) as [t Ht].
      apply (surrounding_space_false _ a t z (rev u)).
      + exact Ht.
      + rewrite Hu, rev_app_distr. reflexivity.
      + inversion Hw; assumption.
      + exact Hz.
    - apply split_join; [assumption|].
      eapply Forall_impl; [|exact HF].
      intros w [_ Hw] Hin. rewrite Forall_forall in Hw. specialize (Hw 32 Hin). lia.
    - clear Hne. induction HF as [|w r Hw0 HF IH]; [reflexivity|].
      destruct Hw0 as [Hwne _]. destruct w as [|a w']; [congruence|].
      cbn [existsb orb]. exact IH.
  Qed.
End Sentences.
