(* Proofs about Model/Pool.v (property C06). *)
From Coq Require Import Lia ZifyBool Sorting.Sorted.
From Sky Require Import Base.Uint Model.Pool.
Open Scope Z_scope.

Definition sorted_pool (p : list entry) : Prop := StronglySorted Z.lt (keys p).

Lemma mem_spec i l : mem i l = true <-> In i l.
Proof.
  unfold mem. rewrite existsb_exists. split.
  - intros [x [Hx E]]. apply Z.eqb_eq in E. now subst.
  - intros H. exists i. split; [exact H|apply Z.eqb_refl].
Qed.

Lemma sorted_nodup l : StronglySorted Z.lt l -> NoDup l.
Proof.
  induction 1 as [|a l Hs IH Ha]; constructor; [|exact IH].
  intros Hin. rewrite Forall_forall in Ha. specialize (Ha _ Hin). lia.
Qed.

(* ---------------- pool_put ---------------- *)

Lemma pool_put_keys_in t f p k :
  In k (keys (pool_put t f p)) <-> k = tid t \/ In k (keys p).
Proof.
  induction p as [|e r IH]; cbn [pool_put keys map].
  - cbn. unfold key. cbn. intuition.
  - destruct (tid t <? key e) eqn:E1; [|destruct (tid t =? key e) eqn:E2]; cbn [map In].
    + unfold key at 1. cbn [fst]. intuition.
    + unfold key at 1. cbn [fst]. fold (key e). fold (keys r).
      assert (tid t = key e) by lia. intuition congruence.
    + fold (keys (pool_put t f r)). fold (keys r). unfold keys in IH. rewrite IH. intuition.
Qed.

Lemma pool_put_sorted t f p : sorted_pool p -> sorted_pool (pool_put t f p).
Proof.
  unfold sorted_pool. induction p as [|e r IH]; intros Hs.
  - cbn. constructor; constructor.
  - cbn [keys map] in Hs. apply StronglySorted_inv in Hs. destruct Hs as [Hr He].
    cbn [pool_put]. destruct (tid t <? key e) eqn:E1; [|destruct (tid t =? key e) eqn:E2].
    + cbn [keys map]. constructor; [constructor; assumption|].
      constructor; [unfold key at 1; cbn [fst]; lia|].
      rewrite Forall_forall in He |- *. intros x Hx. specialize (He x Hx). unfold key at 1. cbn [fst]. lia.
    + cbn [keys map]. constructor; [exact Hr|]. unfold key at 1. cbn [fst]. exact He.
    + cbn [keys map]. constructor; [now apply IH|].
      rewrite Forall_forall in He |- *. intros x Hx.
      apply (pool_put_keys_in t f r x) in Hx. destruct Hx as [->|Hx]; [lia|now apply He].
Qed.

(* a known key: the key list does not change (no duplicate, nothing lost) *)
Lemma pool_put_known_keys t f p : sorted_pool p -> In (tid t) (keys p) ->
  keys (pool_put t f p) = keys p.
Proof.
  unfold sorted_pool. induction p as [|e r IH]; intros Hs Hin; [destruct Hin|].
  cbn [keys map] in Hs, Hin. apply StronglySorted_inv in Hs. destruct Hs as [Hr He].
  cbn [pool_put]. destruct (tid t <? key e) eqn:E1; [|destruct (tid t =? key e) eqn:E2].
  - exfalso. destruct Hin as [Hin|Hin]; [lia|]. rewrite Forall_forall in He. specialize (He _ Hin). lia.
  - reflexivity.
  - cbn [keys map]. f_equal. apply IH; [exact Hr|]. destruct Hin as [Hin|Hin]; [lia|exact Hin].
Qed.

Lemma known_in_spec p t : known_in p t = true <-> In (tid t) (keys p).
Proof.
  unfold known_in, keys. rewrite existsb_exists, in_map_iff. split.
  - intros [e [He E]]. exists e. split; [lia|exact He].
  - intros [e [E He]]. exists e. split; [exact He|lia].
Qed.

(* entries of the new pool: the injected one (new key: stored as given; known
   key: stored transaction kept) with the new flag, all others untouched *)
Lemma pool_put_entries t f p u g : sorted_pool p -> In (u, g) (pool_put t f p) ->
  (tid u = tid t /\ g = f /\ (u = t \/ In u (map fst p))) \/ (tid u <> tid t /\ In (u, g) p).
Proof.
  unfold sorted_pool. induction p as [|e r IH]; intros Hs; cbn [pool_put].
  - intros [E|[]]. injection E as <- <-. left. auto.
  - cbn [keys map] in Hs. apply StronglySorted_inv in Hs. destruct Hs as [Hr He].
    rewrite Forall_forall in He.
    assert (Hk : forall x y, In (x, y) r -> key e < tid x).
    { intros x y Hxy. apply He. unfold keys. apply in_map_iff. exists (x, y). split; [reflexivity|exact Hxy]. }
    destruct (tid t <? key e) eqn:E1; [|destruct (tid t =? key e) eqn:E2]; cbn [In].
    + intros [E|[E|H]].
      * injection E as <- <-. left. auto.
      * subst e. unfold key in E1. cbn [fst] in E1. right. split; [lia|now left].
      * right. specialize (Hk _ _ H). split; [lia|now right].
    + intros [E|H].
      * injection E as <- <-. left. unfold key in E2. split; [lia|]. split; [reflexivity|].
        right. cbn [map]. now left.
      * right. specialize (Hk _ _ H). split; [lia|now right].
    + intros [E|H].
      * subst e. unfold key in E1, E2. cbn [fst] in E1, E2. right. split; [lia|now left].
      * destruct (IH Hr H) as [[H1 [H2 H3]]|[H1 H2]].
        -- left. split; [exact H1|]. split; [exact H2|]. destruct H3 as [H3|H3]; [now left|right; cbn [map]; now right].
        -- right. split; [exact H1|now right].
Qed.

(* ---------------- the operations preserve the key order ---------------- *)

Lemma sorted_filter_keys f p : sorted_pool p -> sorted_pool (filter f p).
Proof.
  unfold sorted_pool. induction p as [|e r IH]; intros Hs; [constructor|].
  cbn [keys map] in Hs. apply StronglySorted_inv in Hs. destruct Hs as [Hr He].
  cbn [filter]. destruct (f e); [|now apply IH].
  cbn [keys map]. constructor; [now apply IH|].
  rewrite Forall_forall in He |- *. intros x Hx. apply He.
  unfold keys in *. apply in_map_iff in Hx. destruct Hx as [y [E Hy]]. apply filter_In in Hy.
  apply in_map_iff. exists y. tauto.
Qed.

Lemma keys_reflag (g : entry -> bool) p : keys (map (fun e => (fst e, g e)) p) = keys p.
Proof. unfold keys. rewrite map_map. apply map_ext. intros e. reflexivity. Qed.

Lemma step_sorted s o : sorted_pool (pool s) -> sorted_pool (pool (fst (step s o))).
Proof.
  intros Hs. destruct o as [t v|ep t u v|h txs|vs|vs]; cbn [step].
  - unfold inject. destruct (negb (hard_ok (unspent s) t v)); cbn [fst pool]; [exact Hs|now apply pool_put_sorted].
  - unfold inject_user, inject. destruct (negb u); [exact Hs|].
    destruct (negb (hard_ok (unspent s) t v)); [exact Hs|]. destruct (negb (v_soft v)); [exact Hs|].
    cbn [fst pool]. now apply pool_put_sorted.
  - unfold exec_block. destruct (block_ok (unspent s) h txs); cbn [fst pool]; [|exact Hs].
    now apply sorted_filter_keys.
  - unfold refresh. destruct (negb (covered vs (pool s))); cbn [fst pool]; [exact Hs|].
    unfold sorted_pool. now rewrite keys_reflag.
  - unfold remove_invalid. destruct (negb (covered vs (pool s))); cbn [fst pool]; [exact Hs|].
    now apply sorted_filter_keys.
Qed.

Lemma run_sorted ops : forall s, sorted_pool (pool s) -> sorted_pool (pool (run s ops)).
Proof.
  induction ops as [|o r IH]; intros s Hs; [exact Hs|]. cbn [run]. apply IH. now apply step_sorted.
Qed.

(* no transaction is ever held twice, whatever the history *)
Lemma pool_keys_sorted_l U ops : StronglySorted Z.lt (keys (pool (run (init U) ops))).
Proof. apply run_sorted. cbn. constructor. Qed.

Lemma pool_keys_nodup_l U ops : NoDup (keys (pool (run (init U) ops))).
Proof. apply sorted_nodup, pool_keys_sorted_l. Qed.

Lemma run_app ops1 : forall s ops2, run s (ops1 ++ ops2) = run (run s ops1) ops2.
Proof. induction ops1 as [|o r IH]; intros s ops2; [reflexivity|]. cbn [app run]. apply IH. Qed.

(* ---------------- injection ---------------- *)

(* a transaction enters (its key is new in the pool) only if the hard rules hold
   at the current head; its flag is the soft verdict *)
Lemma inject_foreign_admits_l s t v u g : sorted_pool (pool s) ->
  In (u, g) (pool (fst (step s (InjectForeign t v)))) -> ~ In (tid u) (keys (pool s)) ->
  u = t /\ hard_ok (unspent s) t v = true /\ g = v_soft v.
Proof.
  intros Hs Hin Hnew. cbn [step] in Hin. unfold inject in Hin.
  destruct (hard_ok (unspent s) t v) eqn:Eh; cbn [negb fst pool] in Hin.
  - destruct (pool_put_entries _ _ _ _ _ Hs Hin) as [[H1 [H2 [H3|H3]]]|[H1 H2]].
    + subst. auto.
    + exfalso. apply Hnew. rewrite H1. unfold keys. apply in_map_iff in H3. destruct H3 as [e [E He]].
      (* a stored entry with this key *)
      pose proof (pool_put_keys_in t (v_soft v) (pool s) (tid t)) as _.
      apply in_map_iff. exists e. split; [unfold key; now rewrite E|exact He].
    + exfalso. apply Hnew. unfold keys. apply in_map_iff. exists (u, g). split; [reflexivity|exact H2].
  - exfalso. apply Hnew. unfold keys. apply in_map_iff. exists (u, g). split; [reflexivity|exact Hin].
Qed.

(* user submissions must also satisfy the user and soft rules *)
Lemma inject_user_admits_l s ep t uo v u g : sorted_pool (pool s) ->
  In (u, g) (pool (fst (step s (InjectUser ep t uo v)))) -> ~ In (tid u) (keys (pool s)) ->
  u = t /\ uo = true /\ hard_ok (unspent s) t v = true /\ v_soft v = true /\ g = true.
Proof.
  intros Hs Hin Hnew. cbn [step] in Hin. unfold inject_user in Hin.
  assert (Hold : forall x y, In (x, y) (pool s) -> In (tid x) (keys (pool s))).
  { intros x y H. unfold keys. apply in_map_iff. exists (x, y). split; [reflexivity|exact H]. }
  destruct uo; cbn [negb] in Hin; [|exfalso; eauto].
  destruct (hard_ok (unspent s) t v) eqn:Eh; cbn [negb] in Hin; [|exfalso; eauto].
  destruct (v_soft v) eqn:Es; cbn [negb] in Hin; [|exfalso; eauto].
  pose proof (inject_foreign_admits_l s t v u g Hs) as H. cbn [step] in H.
  destruct (H Hin Hnew) as [H1 [H2 H3]]. rewrite Es in H3. auto.
Qed.

(* a rejected submission changes nothing *)
Lemma inject_rejected_l s o :
  match o with
  | InjectForeign t v => hard_ok (unspent s) t v = false
  | InjectUser ep t u v => u && hard_ok (unspent s) t v && v_soft v = false
  | _ => False
  end -> fst (step s o) = s.
Proof.
  destruct o as [t v|ep t u v|h txs|vs|vs]; try contradiction; intros H; cbn [step].
  - unfold inject. now rewrite H.
  - unfold inject_user. destruct u; [|reflexivity]. cbn [negb andb] in *.
    destruct (hard_ok (unspent s) t v); [|reflexivity]. cbn [negb andb] in *. now rewrite H.
Qed.

(* re-submitting a known transaction does not duplicate it: the key list is
   unchanged, and an accepted re-submission is reported as known *)
Lemma inject_known_l s t v : sorted_pool (pool s) -> In (tid t) (keys (pool s)) ->
  keys (pool (fst (step s (InjectForeign t v)))) = keys (pool s) /\
  (hard_ok (unspent s) t v = true -> exists c, snd (step s (InjectForeign t v)) = OInject true c).
Proof.
  intros Hs Hk. cbn [step]. unfold inject. destruct (hard_ok (unspent s) t v); cbn [negb fst snd pool].
  - split; [now apply pool_put_known_keys|]. intros _.
    rewrite (proj2 (known_in_spec (pool s) t) Hk). eauto.
  - split; [reflexivity|discriminate].
Qed.

Lemma inject_user_known_l s ep t u v : sorted_pool (pool s) -> In (tid t) (keys (pool s)) ->
  keys (pool (fst (step s (InjectUser ep t u v)))) = keys (pool s).
Proof.
  intros Hs Hk. cbn [step]. unfold inject_user.
  destruct (negb u); [reflexivity|]. destruct (negb (hard_ok (unspent s) t v)) eqn:E; [reflexivity|].
  destruct (negb (v_soft v)); [reflexivity|].
  pose proof (inject_known_l s t v Hs Hk) as [H _]. exact H.
Qed.

(* ---------------- blocks ---------------- *)

Lemma exec_block_removes_l s h txs s' : step s (ExecBlock h txs) = (s', OBlock true) ->
  (forall tv, In tv txs -> ~ In (tid (fst tv)) (keys (pool s'))) /\
  (forall e, In e (pool s') <-> In e (pool s) /\ ~ In (key e) (map (fun tv => tid (fst tv)) txs)).
Proof.
  cbn [step]. unfold exec_block. destruct (block_ok (unspent s) h txs); [|discriminate].
  intros E. injection E as <-. cbn [pool]. unfold pool_remove.
  assert (H2 : forall e, In e (filter (fun e0 => negb (mem (key e0) (map (fun tv => tid (fst tv)) txs))) (pool s)) <->
                         In e (pool s) /\ ~ In (key e) (map (fun tv => tid (fst tv)) txs)).
  { intros e. rewrite filter_In, Bool.negb_true_iff. split; intros [H1 H2]; (split; [exact H1|]).
    - intros Hin. apply mem_spec in Hin. congruence.
    - destruct (mem (key e) (map (fun tv => tid (fst tv)) txs)) eqn:Em; [|reflexivity].
      apply mem_spec in Em. contradiction. }
  split; [|exact H2].
  intros tv Htv Hin. unfold keys in Hin. apply in_map_iff in Hin. destruct Hin as [e [E He]].
  apply H2 in He. destruct He as [_ He]. apply He. rewrite E. apply in_map_iff. exists tv. tauto.
Qed.

Lemma exec_block_rejected_l s h txs s' : step s (ExecBlock h txs) = (s', OBlock false) -> s' = s.
Proof.
  cbn [step]. unfold exec_block. destruct (block_ok (unspent s) h txs); [discriminate|].
  intros E. now injection E.
Qed.

(* ---------------- Refresh / RemoveInvalid ---------------- *)

Lemma recheck_reflag U vs e f : recheck U vs (fst e, f) = recheck U vs e.
Proof. reflexivity. Qed.

(* after Refresh: same transactions, every flag equals a fresh re-check at the
   current head; the returned hashes are those that went from invalid to valid *)
Lemma refresh_flags_l s vs s' l : step s (Refresh vs) = (s', OHashes l) ->
  unspent s' = unspent s /\ map fst (pool s') = map fst (pool s) /\
  (forall e, In e (pool s') -> snd e = recheck (unspent s') vs e) /\
  l = map key (filter (fun e => negb (snd e) && recheck (unspent s) vs e) (pool s)).
Proof.
  cbn [step]. unfold refresh. destruct (negb (covered vs (pool s))); [discriminate|].
  intros E. injection E as <- <-. cbn [unspent pool]. split; [reflexivity|]. split; [|split; [|reflexivity]].
  - rewrite map_map. apply map_ext. reflexivity.
  - intros e He. apply in_map_iff in He. destruct He as [e0 [<- _]]. reflexivity.
Qed.

Lemma covered_lookup vs p e : covered vs p = true -> In e p -> exists v, lookup (key e) vs = Some v.
Proof.
  unfold covered. rewrite forallb_forall. intros H He. specialize (H e He).
  destruct (lookup (key e) vs) as [v|]; [eauto|discriminate].
Qed.

(* after RemoveInvalid no pooled transaction violates a hard rule at the head,
   and exactly the violating ones were removed (and reported) *)
Lemma remove_invalid_sound_l s vs s' l : step s (RemoveInvalid vs) = (s', OHashes l) ->
  unspent s' = unspent s /\
  (forall e, In e (pool s') -> exists v, lookup (key e) vs = Some v /\ hard_ok (unspent s') (fst e) v = true) /\
  (forall e, In e (pool s) -> In e (pool s') \/ (hard_now (unspent s) vs e = false /\ In (key e) l)) /\
  (forall e, In e (pool s') -> In e (pool s)).
Proof.
  cbn [step]. unfold remove_invalid. destruct (negb (covered vs (pool s))) eqn:Ec; [discriminate|].
  intros E. injection E as <- <-. cbn [unspent pool]. split; [reflexivity|]. split; [|split].
  - intros e He. apply filter_In in He. destruct He as [He Hh]. unfold hard_now in Hh.
    destruct (lookup (key e) vs) as [v|]; [eauto|discriminate].
  - intros e He. destruct (hard_now (unspent s) vs e) eqn:Eh.
    + left. apply filter_In. tauto.
    + right. split; [reflexivity|]. apply in_map_iff. exists e. split; [reflexivity|].
      apply filter_In. split; [exact He|]. now rewrite Eh.
  - intros e He. now apply filter_In in He.
Qed.

(* ---------------- history theorem ---------------- *)

(* which operation admits transaction t, and under which verdict *)
Definition admits (o : op) (t : txn) (v : verdict) : Prop :=
  o = InjectForeign t v \/ (exists ep, o = InjectUser ep t true v /\ v_soft v = true).

Lemma step_new_entry s o t : sorted_pool (pool s) ->
  In t (map fst (pool (fst (step s o)))) ->
  In t (map fst (pool s)) \/ exists v, admits o t v /\ hard_ok (unspent s) t v = true.
Proof.
  intros Hs Hin. apply in_map_iff in Hin. destruct Hin as [[u g] [E Hin]]. cbn [fst] in E. subst u.
  assert (Hold : forall x y, In (x, y) (pool s) -> In x (map fst (pool s))).
  { intros x y H. apply in_map_iff. exists (x, y). split; [reflexivity|exact H]. }
  destruct o as [t0 v|ep t0 u v|h txs|vs|vs]; cbn [step] in Hin.
  - unfold inject in Hin. destruct (hard_ok (unspent s) t0 v) eqn:Eh; cbn [negb fst pool] in Hin; [|eauto].
    destruct (pool_put_entries _ _ _ _ _ Hs Hin) as [[H1 [H2 [H3|H3]]]|[H1 H2]]; [|now left|eauto].
    subst t0. right. exists v. split; [now left|exact Eh].
  - unfold inject_user in Hin. destruct u; cbn [negb] in Hin; [|eauto].
    destruct (hard_ok (unspent s) t0 v) eqn:Eh; cbn [negb] in Hin; [|eauto].
    destruct (v_soft v) eqn:Es; cbn [negb] in Hin; [|eauto].
    unfold inject in Hin. rewrite Eh in Hin. cbn [negb fst pool] in Hin.
    destruct (pool_put_entries _ _ _ _ _ Hs Hin) as [[H1 [H2 [H3|H3]]]|[H1 H2]]; [|now left|eauto].
    subst t0. right. exists v. split; [right; exists ep; auto|exact Eh].
  - unfold exec_block in Hin. destruct (block_ok (unspent s) h txs); cbn [fst pool] in Hin; [|eauto].
    unfold pool_remove in Hin. apply filter_In in Hin. destruct Hin as [Hin _]. eauto.
  - unfold refresh in Hin. destruct (negb (covered vs (pool s))); cbn [fst pool] in Hin; [eauto|].
    apply in_map_iff in Hin. destruct Hin as [e [E He]]. injection E as <- _. left.
    apply in_map_iff. exists e. split; [reflexivity|exact He].
  - unfold remove_invalid in Hin. destruct (negb (covered vs (pool s))); cbn [fst pool] in Hin; [eauto|].
    apply filter_In in Hin. destruct Hin as [Hin _]. eauto.
Qed.

(* every transaction the pool holds, after any history, was admitted by an
   injection at whose head it satisfied the hard rules *)
Lemma pool_entries_were_admitted_l U ops : forall t,
  In t (map fst (pool (run (init U) ops))) ->
  exists ops1 o ops2 v, ops = ops1 ++ o :: ops2 /\ admits o t v /\
    hard_ok (unspent (run (init U) ops1)) t v = true.
Proof.
  induction ops as [|o ops IH] using rev_ind; intros t Hin.
  - cbn in Hin. destruct Hin.
  - rewrite run_app in Hin. cbn [run] in Hin.
    destruct (step_new_entry _ _ _ (pool_keys_sorted_l U ops) Hin) as [Hold|[v [Ha Hh]]].
    + destruct (IH t Hold) as [ops1 [o1 [ops2 [v [E [Ha Hh]]]]]].
      exists ops1, o1, (ops2 ++ [o]), v. split; [|tauto]. rewrite E, <- app_assoc. reflexivity.
    + exists ops, o, [], v. tauto.
Qed.

(* ------------------------------------------------------------------ *)
(* the model's steps satisfy the decidable property (step_prop) that the *)
(* check evaluates on the node's own outputs                            *)
(* ------------------------------------------------------------------ *)

Definition proj (p : list entry) : list (Z * bool) := map (fun e => (key e, snd e)) p.

Lemma proj_keys p : map fst (proj p) = keys p.
Proof. unfold proj, keys. rewrite map_map. reflexivity. Qed.

Lemma sorted_keys_spec l : StronglySorted Z.lt l -> sorted_keys l = true.
Proof.
  induction 1 as [|a l Hs IH Ha]; [reflexivity|]. cbn [sorted_keys].
  destruct l as [|b r]; [reflexivity|]. apply Forall_inv in Ha. rewrite IH. lia.
Qed.

Lemma eqb_opool_refl l : eqb_opool l l = true.
Proof.
  unfold eqb_opool. induction l as [|x r IH]; [reflexivity|]. cbn [eqb_list].
  rewrite IH, Z.eqb_refl, Bool.eqb_reflx. reflexivity.
Qed.

Lemma eqb_z_list_refl l : eqb_list Z.eqb l l = true.
Proof. induction l as [|x r IH]; [reflexivity|]. cbn [eqb_list]. now rewrite IH, Z.eqb_refl. Qed.

Lemma proj_known p t : existsb (fun x => fst x =? tid t) (proj p) = known_in p t.
Proof. unfold proj, known_in. induction p as [|e r IH]; [reflexivity|]. cbn [map existsb fst]. now rewrite IH. Qed.

Lemma proj_filter (f : entry -> bool) (g : Z * bool -> bool) p :
  (forall e, In e p -> f e = g (key e, snd e)) -> proj (filter f p) = filter g (proj p).
Proof.
  induction p as [|e r IH]; intros H; [reflexivity|]. cbn [filter proj map].
  rewrite <- (H e) by now left. destruct (f e); cbn [map]; fold (proj r); fold (proj (filter f r));
    rewrite IH by (intros x Hx; apply H; now right); reflexivity.
Qed.

Lemma without_proj_put t f p : sorted_pool p ->
  without (tid t) (proj (pool_put t f p)) = without (tid t) (proj p).
Proof.
  unfold sorted_pool, without. induction p as [|e r IH]; intros Hs.
  - cbn. unfold key. cbn [fst]. now rewrite Z.eqb_refl.
  - cbn [keys map] in Hs. apply StronglySorted_inv in Hs. destruct Hs as [Hr He].
    cbn [pool_put]. destruct (tid t <? key e) eqn:E1; [|destruct (tid t =? key e) eqn:E2].
    + cbn [proj map filter fst]. unfold key at 1. cbn [fst]. now rewrite Z.eqb_refl.
    + cbn [proj map filter fst]. unfold key at 1. cbn [fst]. fold (key e).
      replace (key e =? tid t) with true by lia. reflexivity.
    + cbn [proj map filter fst]. fold (proj r). fold (proj (pool_put t f r)).
      rewrite IH by exact Hr. reflexivity.
Qed.

Lemma oflag_proj_put t f p : sorted_pool p -> oflag (proj (pool_put t f p)) (tid t) = Some f.
Proof.
  unfold sorted_pool, oflag. induction p as [|e r IH]; intros Hs.
  - cbn. unfold key. cbn [fst]. now rewrite Z.eqb_refl.
  - cbn [keys map] in Hs. apply StronglySorted_inv in Hs. destruct Hs as [Hr He].
    cbn [pool_put]. destruct (tid t <? key e) eqn:E1; [|destruct (tid t =? key e) eqn:E2].
    + cbn [proj map find fst]. unfold key at 1. cbn [fst]. now rewrite Z.eqb_refl.
    + cbn [proj map find fst]. unfold key at 1. cbn [fst]. fold (key e).
      replace (key e =? tid t) with true by lia. reflexivity.
    + cbn [proj map find fst]. replace (key e =? tid t) with false by lia.
      fold (proj (pool_put t f r)). now apply IH.
Qed.

(* the node's "inputs unspent" answers agree with the model's unspent set *)
Definition agrees (s : state) (o : op) : Prop :=
  match o with
  | InjectForeign t v | InjectUser _ t _ v => v_unspent v = inputs_unspent (unspent s) t
  | ExecBlock _ _ => True
  | Refresh vs | RemoveInvalid vs =>
      covered vs (pool s) = true /\
      forall e v, In e (pool s) -> lookup (key e) vs = Some v -> v_unspent v = inputs_unspent (unspent s) (fst e)
  end.

Lemma vhard_hard_ok U t v : v_unspent v = inputs_unspent U t -> vhard v = hard_ok U t v.
Proof. unfold vhard, hard_ok. now intros ->. Qed.

Lemma inject_meets s t v before :
  sorted_pool (pool s) -> before = proj (pool s) -> vhard v = hard_ok (unspent s) t v ->
  let r := inject s t v in
  (if vhard v then
     match snd r with
     | OInject k c =>
        eqb_icls c (if v_soft v then IOk else ISoftFlagged)
        && Bool.eqb k (existsb (fun x => fst x =? tid t) before)
        && eqb_option Bool.eqb (oflag (proj (pool (fst r))) (tid t)) (Some (v_soft v))
        && eqb_opool (without (tid t) (proj (pool (fst r)))) (without (tid t) before)
     | _ => false
     end
   else
     match snd r with
     | OInject k c => eqb_icls c IHard && negb k && eqb_opool (proj (pool (fst r))) before
     | _ => false
     end) = true.
Proof.
  intros Hs -> Hv. cbn zeta. unfold inject. rewrite Hv.
  destruct (hard_ok (unspent s) t v); cbn [negb fst snd pool].
  - rewrite proj_known, Bool.eqb_reflx, oflag_proj_put, without_proj_put by exact Hs.
    rewrite eqb_opool_refl. cbn [eqb_option]. rewrite Bool.eqb_reflx.
    destruct (v_soft v); reflexivity.
  - now rewrite eqb_opool_refl.
Qed.

Lemma model_meets_step_prop_l s o : sorted_pool (pool s) -> agrees s o ->
  step_prop (proj (pool s)) (mkO o (snd (step s o)) (proj (pool (fst (step s o))))) = true.
Proof.
  intros Hs Ha. unfold step_prop. cbn [o_pool o_op o_out].
  rewrite proj_keys, (sorted_keys_spec _ (step_sorted s o Hs)). cbn [andb].
  destruct o as [t v|ep t u v|h txs|vs|vs]; cbn [step agrees] in *.
  - pose proof (inject_meets s t v _ Hs eq_refl (vhard_hard_ok _ _ _ Ha)) as H. cbn zeta in H.
    destruct (vhard v); destruct (snd (inject s t v)); try discriminate H; exact H.
  - pose proof (vhard_hard_ok _ _ _ Ha) as Hv. unfold inject_user. rewrite Hv.
    destruct u; cbn [negb andb].
    + destruct (hard_ok (unspent s) t v) eqn:Eh; cbn [negb andb].
      * destruct (v_soft v) eqn:Es; cbn [negb].
        -- pose proof (inject_meets s t v _ Hs eq_refl (vhard_hard_ok _ _ _ Ha)) as H. cbn zeta in H.
           rewrite Hv, Es in H. destruct (snd (inject s t v)); try discriminate H. exact H.
        -- cbn [fst snd]. now rewrite eqb_opool_refl.
      * cbn [fst snd]. now rewrite eqb_opool_refl.
    + cbn [fst snd]. now rewrite eqb_opool_refl.
  - unfold exec_block. destruct (block_ok (unspent s) h txs); cbn [fst snd pool].
    + unfold pool_remove. erewrite proj_filter; [apply eqb_opool_refl|]. intros e _. reflexivity.
    + apply eqb_opool_refl.
  - destruct Ha as [Hc Hu]. unfold refresh. rewrite Hc. cbn [negb fst snd pool].
    assert (Hr : forall e, In e (pool s) -> recheck (unspent s) vs e = vrecheck vs (key e, snd e)).
    { intros e He. unfold recheck, vrecheck. cbn [fst].
      destruct (lookup (key e) vs) as [v|] eqn:El; [|reflexivity].
      now rewrite (vhard_hard_ok _ _ _ (Hu e v He El)). }
    apply Bool.andb_true_iff. split.
    + replace (proj (map (fun e => (fst e, recheck (unspent s) vs e)) (pool s)))
        with (map (fun x : Z * bool => (fst x, vrecheck vs x)) (proj (pool s))); [apply eqb_opool_refl|].
      unfold proj. rewrite !map_map. apply map_ext_in. intros e He. unfold key. cbn [fst snd].
      now rewrite (Hr e He).
    + replace (map fst (filter (fun x : Z * bool => negb (snd x) && vrecheck vs x) (proj (pool s))))
        with (map key (filter (fun e => negb (snd e) && recheck (unspent s) vs e) (pool s))); [apply eqb_z_list_refl|].
      rewrite <- (proj_filter (fun e => negb (snd e) && recheck (unspent s) vs e)
                              (fun x => negb (snd x) && vrecheck vs x)).
      * unfold proj. rewrite map_map. reflexivity.
      * intros e He. cbn [snd]. now rewrite (Hr e He).
  - destruct Ha as [Hc Hu]. unfold remove_invalid. rewrite Hc. cbn [negb fst snd pool].
    assert (Hr : forall e, In e (pool s) -> hard_now (unspent s) vs e = vhardnow vs (key e, snd e)).
    { intros e He. unfold hard_now, vhardnow. cbn [fst].
      destruct (lookup (key e) vs) as [v|] eqn:El; [|reflexivity].
      now rewrite (vhard_hard_ok _ _ _ (Hu e v He El)). }
    apply Bool.andb_true_iff. split.
    + rewrite (proj_filter _ (vhardnow vs)) by exact Hr. apply eqb_opool_refl.
    + replace (map fst (filter (fun x : Z * bool => negb (vhardnow vs x)) (proj (pool s))))
        with (map key (filter (fun e => negb (hard_now (unspent s) vs e)) (pool s))); [apply eqb_z_list_refl|].
      rewrite <- (proj_filter (fun e => negb (hard_now (unspent s) vs e)) (fun x => negb (vhardnow vs x))).
      * unfold proj. rewrite map_map. reflexivity.
      * intros e He. now rewrite (Hr e He).
Qed.
