(* compiled by lib/modeb.py in the build directory: writes c10_model.ml there *)
From Coq Require Import Extraction.
From Sky Require Import Model.Secp Model.SigAccept Extract.SecpExtract.
Extraction "c10_model.ml"
  arith_selftest_expected arith_selftest_actual
  verify_pubkey_signed_hash verify_address_signed_hash verify_signature_recover_pubkey
  verify_signature recover_pubkey sig_wellformed sig_s n halfOrder.
