(* Extract/SecpExtract.v — Mode B (DESIGN.md 4.2): the executable model of
   Model/Secp.v extracted to OCaml with Z / positive mapped to Zarith through
   the glue module runner/zr.ml.  This file is compiled by the check driver
   (lib/modeb.py) in a build directory; it is not part of any proof.

   TRUSTED: Coq's extraction mechanism, ExtrOcamlBasic, every directive below
   (listed verbatim in the evidence), runner/zr.ml, Zarith.  The directives
   are exercised on every run by `arith_selftest` (values computed by the Coq
   kernel with vm_compute are compared with what the extracted code computes). *)
From Coq Require Import Extraction ExtrOcamlBasic ZArith List.
From Sky Require Import Model.Secp.
Import ListNotations.
Open Scope Z_scope.

Extraction Language OCaml.

Extract Inductive positive => "Zr.t" [ "Zr.xI" "Zr.xO" "Zr.xH" ] "Zr.pos_case".
Extract Inductive Z => "Zr.t" [ "Zr.z0" "Zr.zpos" "Zr.zneg" ] "Zr.z_case".
Extract Constant Z.add => "Zr.add".
Extract Constant Z.sub => "Zr.sub".
Extract Constant Z.mul => "Zr.mul".
Extract Constant Z.opp => "Zr.opp".
Extract Constant Z.div => "Zr.div".
Extract Constant Z.modulo => "Zr.modulo".
Extract Constant Z.eqb => "Zr.eqb".
Extract Constant Z.ltb => "Zr.ltb".
Extract Constant Z.leb => "Zr.leb".

(* self-test of the directives: the expected values are computed here by the
   kernel; the extracted `arith_selftest_actual` is computed by Zarith *)
Definition arith_inputs : list (Z * Z) :=
  [(0, 0); (5, 0); (-5, 0); (0, 7); (7, 2); (-7, 2); (7, -2); (-7, -2); (1, 1); (-1, 1);
   (p, n); (n, p); (-p, n); (p, -n); (p * p, n); (-(p * p), n); (p * n + 5, p); (two256 - 1, 256);
   (halfOrder, 2); (2, halfOrder); (-(halfOrder), 3); (Gx, Gy); (Gy, Gx); (-Gx, Gy)].
Definition arith_ops (ab : Z * Z) : list Z :=
  let '(a, b) := ab in
  [a + b; a - b; a * b; - a; a / b; a mod b;
   if a =? b then 1 else 0; if a <? b then 1 else 0; if a <=? b then 1 else 0;
   if Z.odd a then 1 else 0; Z.abs a; a / 2; match a with Z0 => 0 | Zpos q => Zpos (Pos.succ q) | Zneg q => Zneg (xO q) end].
(* one 256-bit digest per input pair (keeps the extracted literal small) *)
Definition arith_digest (l : list Z) : Z :=
  fold_left (fun acc x => (acc * 1000003 + x) mod two256) l 7.
Definition arith_selftest_expected : list Z :=
  Eval vm_compute in map (fun ab => arith_digest (arith_ops ab)) arith_inputs.
Definition arith_selftest_actual (u : unit) : list Z :=
  map (fun ab => arith_digest (arith_ops ab)) arith_inputs.
