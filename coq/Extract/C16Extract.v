(* compiled by lib/modeb.py in the build directory: writes c16_model.ml there *)
From Coq Require Import Extraction List String.
From Sky Require Import Model.Secp Model.Bip Model.BipWords Extract.SecpExtract.
Extraction "c16_model.ml"
  arith_selftest_expected arith_selftest_actual
  english_words new_mnemonic entropy_from_mnemonic validate_mnemonic new_seed
  master_key ckd_priv ckd_pub neuter serialize deserialize parse_path print_path
  private_key_from_path bip44_coin bip44_account bip44_external bip44_change.
