(* compiled by lib/modeb.py in the build directory: writes c14_model.ml there *)
From Coq Require Import Extraction.
From Sky Require Import Model.Secp Model.SigAccept Extract.SecpExtract.
Extraction "c14_model.ml"
  arith_selftest_expected arith_selftest_actual
  n p halfOrder
  seckey_code pubkey_of_seckey sign ecdsa_verify parse_pubkey verify_signature
  recover sig_r sig_s sig_recid recover_pubkey compress
  verify_pubkey_signed_hash new_pubkey pubkey_code ecdh
  det_keypairs det_keypair_iterator smul smulx point_eqb.
