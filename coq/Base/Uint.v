(* Base/Uint.v — Go fixed-width integers on Z with explicit wrap-around,
   and the result type used by every translated / modelled function.
   Definitions only (lemmas are in Proofs/UintLemmas.v). *)
From Coq Require Export ZArith List Bool String.
Export ListNotations.
Open Scope Z_scope.

(* A Go function either panics (runtime panic: division by zero, index out of
   range, nil dereference, explicit panic) or returns its tuple of results. *)
Inductive res (A : Type) : Type := Panic | Val (a : A).
Arguments Panic {A}.
Arguments Val {A} a.

Definition bind {A B} (r : res A) (f : A -> res B) : res B :=
  match r with Panic => Panic | Val a => f a end.

(* Go's `error` results: nil = None, otherwise the sentinel name or the first
   string literal of errors.New / fmt.Errorf. *)
Definition error := option string.
Definition is_err (e : error) : bool := match e with Some _ => true | None => false end.

(* unsigned N-bit wrap, signed N-bit wrap (two's complement) *)
Definition wrap (bits : Z) (z : Z) : Z := z mod 2 ^ bits.
Definition swrap (bits : Z) (z : Z) : Z :=
  (z + 2 ^ (bits - 1)) mod 2 ^ bits - 2 ^ (bits - 1).

Definition in_u (bits : Z) (z : Z) : Prop := 0 <= z < 2 ^ bits.
Definition in_ub (bits : Z) (z : Z) : bool := (0 <=? z) && (z <? 2 ^ bits).
Definition in_s (bits : Z) (z : Z) : Prop := - 2 ^ (bits - 1) <= z < 2 ^ (bits - 1).

(* unsigned division / remainder; the caller guards b = 0 (Panic) *)
Definition udiv (a b : Z) : res Z := if b =? 0 then Panic else Val (a / b).
Definition umod (a b : Z) : res Z := if b =? 0 then Panic else Val (a mod b).

(* counted loop  for k := lo; k < hi; k++ { s = body k s }  *)
Fixpoint for_loop {S : Type} (n : nat) (k : Z) (body : Z -> S -> S) (s : S) : S :=
  match n with
  | O => s
  | Datatypes.S n' => for_loop n' (k + 1) body (body k s)
  end.
Definition for_range {S : Type} (lo hi : Z) (body : Z -> S -> S) (s : S) : S :=
  for_loop (Z.to_nat (hi - lo)) lo body s.

Definition W64 : Z := 18446744073709551616.
Definition W32 : Z := 4294967296.
Definition MaxInt64 : Z := 9223372036854775807.

(* boolean equality helpers used by cases files *)
Definition eqb_error (a b : error) : bool :=
  match a, b with
  | None, None => true
  | Some x, Some y => String.eqb x y
  | _, _ => false
  end.
Definition eqb_res {A} (eqA : A -> A -> bool) (a b : res A) : bool :=
  match a, b with
  | Panic, Panic => true
  | Val x, Val y => eqA x y
  | _, _ => false
  end.
Definition eqb_pair {A B} (ea : A -> A -> bool) (eb : B -> B -> bool) (x y : A * B) : bool :=
  ea (fst x) (fst y) && eb (snd x) (snd y).
Fixpoint eqb_list {A} (e : A -> A -> bool) (x y : list A) : bool :=
  match x, y with
  | [], [] => true
  | a :: x', b :: y' => e a b && eqb_list e x' y'
  | _, _ => false
  end.
Definition eqb_option {A} (e : A -> A -> bool) (x y : option A) : bool :=
  match x, y with
  | None, None => true
  | Some a, Some b => e a b
  | _, _ => false
  end.

(* indices (from 0) of the cases on which a boolean test fails *)
Fixpoint failing_from {A} (i : Z) (test : A -> bool) (l : list A) : list Z :=
  match l with
  | [] => []
  | a :: r => if test a then failing_from (i + 1) test r else i :: failing_from (i + 1) test r
  end.
Definition failing {A} (test : A -> bool) (l : list A) : list Z := failing_from 0 test l.
Definition count_true {A} (test : A -> bool) (l : list A) : Z :=
  Z.of_nat (List.length (List.filter test l)).
