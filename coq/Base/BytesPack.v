(* Base/BytesPack.v — compact literals for byte strings in harness-written
   cases files: `B len [w0; w1; ...]%uint63` is the byte string of `len` bytes
   whose bytes 7k .. 7k+6 are the little-endian bytes of the primitive integer
   w_k. (A byte string written as a `list Z` literal costs Coq ~100 us per byte
   to parse; this form costs ~5 us.) Used for data only, never in a theorem.
   Definitions only. *)
From Coq Require Import ZArith List Uint63.
Import ListNotations.
Open Scope Z_scope.

Fixpoint unpack_word (n : nat) (w : int) : list Z :=
  match n with
  | O => []
  | S k => Uint63.to_Z (Uint63.land w 255%uint63) :: unpack_word k (Uint63.lsr w 8%uint63)
  end.

Fixpoint B (len : Z) (ws : list int) : list Z :=
  match ws with
  | [] => []
  | w :: r => unpack_word (Z.to_nat (Z.min len 7)) w ++ B (len - 7) r
  end.
