(* Base/BytesPack.v — compact literals for byte strings in harness-written
   cases files: `B len [w0; w1; ...]%uint63` is the byte string of `len` bytes
   whose bytes 7k .. 7k+6 are the little-endian bytes of the primitive integer
   w_k. (A byte string written as a `list Z` literal costs Coq ~100 us per byte
   to parse; this form costs ~5 us.) Used for data only, never in a theorem.
   Definitions only. *)
From Coq Require Import ZArith List Uint63.
Import ListNotations.
Open Scope Z_scope.

Fixpoint unpack_word (n : nat) (w : int) : list Z :=
  match n with
  | O => []
  | S k => Uint63.to_Z (Uint63.land w 255%uint63) :: unpack_word k (Uint63.lsr w 8%uint63)
  end.

Fixpoint B (len : Z) (ws : list int) : list Z :=
  match ws with
  | [] => []
  | w :: r => unpack_word (Z.to_nat (Z.min len 7)) w ++ B (len - 7) r
  end.

(* ---- large generated payloads (harness/c22 `genBytes`, `fingerprint`) ----
   A payload of n bytes is not printed: it is regenerated from a seed by the
   linear congruential generator x := (x*1664525 + 1013904223) mod 2^32,
   byte = x / 2^24; a large observed frame is projected to (length, fingerprint)
   with fingerprint h := (h*31 + byte + 1) mod (2^56 - 5), computed on primitive integers. All tail recursive:
   the lists have up to a few 10^5 elements. *)
Fixpoint gen_bytes_acc (n : nat) (x : int) (acc : list Z) : list Z :=
  match n with
  | O => rev' acc
  | S k => let x' := Uint63.land (Uint63.add (Uint63.mul x 1664525%uint63) 1013904223%uint63) 4294967295%uint63 in
           gen_bytes_acc k x' (Uint63.to_Z (Uint63.lsr x' 24%uint63) :: acc)
  end.
Definition gen_bytes (seed n : Z) : list Z := gen_bytes_acc (Z.to_nat n) (Uint63.of_Z seed) [].

(* h < 2^56, so h*31 + 257 < 2^63: no overflow of the primitive integers *)
Definition fingerprint (l : list Z) : Z :=
  Uint63.to_Z (fold_left (fun h b =>
    Uint63.mod (Uint63.add (Uint63.add (Uint63.mul h 31%uint63) (Uint63.of_Z b)) 1%uint63) 72057594037927931%uint63) l 0%uint63).

(* tail-recursive append / concat / split of a stream into reads of given lengths *)
Definition app_tr {A} (a b : list A) : list A := rev_append (rev' a) b.
Definition concat_tr {A} (ls : list (list A)) : list A :=
  rev' (fold_left (fun acc l => rev_append l acc) ls []).
Fixpoint take_acc {A} (n : nat) (l : list A) (acc : list A) : list A * list A :=
  match n, l with
  | O, _ => (rev' acc, l)
  | S k, x :: r => take_acc k r (x :: acc)
  | S _, [] => (rev' acc, [])
  end.
Fixpoint split_by {A} (lens : list Z) (l : list A) : list (list A) :=
  match lens with
  | [] => []
  | n :: r => let '(c, rest) := take_acc (Z.to_nat n) l [] in c :: split_by r rest
  end.
Definition expand_rle (r : list (Z * Z)) : list Z :=
  flat_map (fun p => repeat (fst p) (Z.to_nat (snd p))) r.
