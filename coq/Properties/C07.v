(* C07 — Derived indexes and query views agree with the chain.
   Statements only. Model/Views.v part 1 defines every view from first principles
   over the accepted chain and the pool; part 2 mirrors the state the code maintains
   (Unspents.ProcessBlock / poolAddrIndex.adjust / buildAddrIndex / MaybeBuildIndexes,
   HistoryDB.ParseBlock / NeedsReset / initHistory) and the Visor query methods.
   Proofs: Proofs/Views{Base,Unspent,History,Node,Balance}.v.
   wf_block / wf_chain is what acceptance of a block guarantees (C02/C04): numbered
   blocks, inputs are distinct unspent outputs, fresh ids (ids are hashes: SHA-256
   collision freedom); it is evaluated on every explored history by the check. *)
From Sky Require Import Base.Uint Model.Views
  Proofs.ViewsBase Proofs.ViewsUnspent Proofs.ViewsHistory Proofs.ViewsNode Proofs.ViewsBalance.
From Coq Require Import List Permutation.
Import ListNotations.
Open Scope Z_scope.

(* views_agree: after ANY sequence of accepted blocks and reopenings (with the index
   bucket / its height marker and the history buckets damaged in any of the ways that
   make the code rebuild), the node runs and its maintained state agrees with the
   first-principles views of the chain: unspent pool = created minus spent, per-address
   index (as a set), checksum = xor of the snapshot hashes, history of every output with
   the transaction and block that spent it, per-address outputs and transactions *)
Theorem C07_views_agree : forall ops,
  wf_ops_from [] ops -> exists n, run_ops ops = Some n /\ nagree n (chain_of ops).
Proof. exact views_agree. Qed.
Print Assumptions C07_views_agree.

(* one block (the refinement step): ProcessBlock + ParseBlock keep the agreement *)
Theorem C07_exec_block_agree : forall n c b,
  wf_chain c -> wf_block c b -> nagree n c ->
  exists n', exec_block n b = Some n' /\ nagree n' (c ++ [b]).
Proof. exact exec_block_agree. Qed.
Print Assumptions C07_exec_block_agree.

(* rebuild_same: rebuilding the address index from the unspent pool (in whatever order
   the bucket is iterated) and the history from the stored blocks gives an agreeing
   state again; a damaged history marker / bucket always triggers the rebuild *)
Theorem C07_rebuild_same : forall n c iw hw order,
  wf_chain c -> c <> [] -> nagree n c ->
  Permutation order (map ux_id (utxo_of c)) ->
  match iw with IdxKeep => True | IdxSet _ h => h <> Some (head_seq c) end ->
  (hw <> HistKeep -> needs_reset (wipe_hist hw (n_hs n)) = true) /\
  exists n', reopen n iw hw order = Some n' /\ nagree n' c.
Proof. exact reopen_agree. Qed.
Print Assumptions C07_rebuild_same.

Theorem C07_history_reparse : forall c, wf_chain c -> exists h, reparse c = Some h /\ hagree h c.
Proof. exact reparse_agree. Qed.
Print Assumptions C07_history_reparse.

(* the queries, on any agreeing state *)
Theorem C07_unspents_of_addr : forall n c, wf_chain c -> nagree n c -> forall a,
  exists l, q_unspents n a = Some l /\ Permutation l (addr_index_of c a).
Proof. exact q_unspents_spec. Qed.
Print Assumptions C07_unspents_of_addr.

Theorem C07_address_count : forall n c, nagree n c -> q_addr_count n = addr_count_of c.
Proof. exact q_addr_count_spec. Qed.
Print Assumptions C07_address_count.

Theorem C07_checksum : forall n c, nagree n c -> q_uxhash n = xor_of c.
Proof. exact q_uxhash_spec. Qed.
Print Assumptions C07_checksum.

(* history of an output: its creation data and the transaction / block that spent it *)
Theorem C07_uxout_history : forall n c, nagree n c -> forall id,
  q_uxout n id = match hist_of c id with Some (u, (t, q)) => Some (mk_hout u t q) | None => None end.
Proof. exact q_uxout_spec. Qed.
Print Assumptions C07_uxout_history.

Theorem C07_address_outputs : forall n c, nagree n c -> forall a, q_addr_outs n a = addr_uxs_of c a.
Proof. exact q_addr_outs_spec. Qed.
Print Assumptions C07_address_outputs.

Theorem C07_transaction : forall n c, nagree n c -> forall tid, q_txn n tid = txn_of c tid.
Proof. exact q_txn_spec. Qed.
Print Assumptions C07_transaction.

Theorem C07_address_transactions : forall n c, nagree n c -> forall a,
  q_addr_txns n a =
  flat_map (fun tid => match txn_of c tid with Some (_, q) => [(tid, q)] | None => [] end) (addr_txns_of c a).
Proof. exact q_addr_txns_spec. Qed.
Print Assumptions C07_address_transactions.

(* checksum algebra: order independent, an element xor-ed twice disappears *)
Theorem C07_xor_order_independent : forall l l' x, Permutation l l' -> xor_list l x = xor_list l' x.
Proof. exact xor_list_perm. Qed.
Print Assumptions C07_xor_order_independent.

Theorem C07_xor_involution : forall x y, Z.lxor (Z.lxor x y) y = x.
Proof. exact xor_twice. Qed.
Print Assumptions C07_xor_involution.

(* balances (coins): confirmed = sum over the address's unspent outputs; predicted = sum
   over those the pool does not spend plus the outputs the pool creates for the address
   = confirmed - outgoing + incoming. Partial: the HOURS columns are tied to the
   first-principles sums by the run-time check only (C07_prop.v), not by a theorem. *)
Theorem C07_balance_coins_partial : forall n c, wf_chain c -> nagree n c -> forall typo p addrs rows,
  pool_stale c p = false ->
  NoDup (map ux_id (utxo_of c) ++ map ux_id (pool_uxs c p)) ->
  Forall (fun u => in_u 64 (ux_coins u)) (utxo_of c ++ pool_uxs c p) ->
  q_balance typo n p addrs = Val (inr rows) ->
  Forall2 (fun a row => let '(cc, _, pc, _) := row in
                        cc = coins_of (confirmed_uxs c a) /\ pc = coins_of (predicted_uxs c p a)) addrs rows.
Proof. exact balance_coins_spec. Qed.
Print Assumptions C07_balance_coins_partial.

Theorem C07_predicted_formula : forall c p a,
  coins_of (predicted_uxs c p a) =
  coins_of (confirmed_uxs c a)
  - coins_of (filter (fun u => memZ (ux_id u) (pool_ins p)) (confirmed_uxs c a))
  + coins_of (filter (fun u => ux_addr u =? a) (pool_uxs c p)).
Proof. exact predicted_is_confirmed_minus_out_plus_in. Qed.
Print Assumptions C07_predicted_formula.

(* F16 (a): the predicted-overflow branch of GetBalanceOfAddresses assigns the confirmed
   hours variable; this can never be observed — the code as written equals the code as
   intended on every input (incoming outputs are created at the head time) *)
Theorem C07_balance_typo_unobservable : forall t uxs outs ins,
  in_u 64 t ->
  Forall (fun u => in_u 64 (ux_time u) /\ in_u 64 (ux_coins u) /\ in_u 64 (ux_hours u)) uxs ->
  Forall (fun u => ux_time u = t /\ in_u 64 (ux_coins u) /\ in_u 64 (ux_hours u)) ins ->
  bal_one true t uxs outs ins = bal_one false t uxs outs ins.
Proof. exact bal_one_typo_unobservable. Qed.
Print Assumptions C07_balance_typo_unobservable.

(* F16 (b): every balance query fails with the GetArray error exactly in the states where
   the pool holds a transaction one of whose inputs is no longer unspent *)
Theorem C07_balance_error_iff_stale : forall n c, wf_chain c -> nagree n c -> forall typo p a addrs,
  q_balance typo n p (a :: addrs) = Val (inl "GetArray failed when checking addresses balance"%string)
  <-> pool_stale c p = true.
Proof. exact balance_err_iff_stale. Qed.
Print Assumptions C07_balance_error_iff_stale.

(* "balances are answered in every state of chain and pool" is FALSE of the faithful
   model (and of the code: the check replays this state on the real visor at every run,
   known finding): genesis pays address 1; a pool transaction spends that output; block 1
   spends it differently — the pool transaction stays, every balance query errors *)
Definition c07_g : block := mk_block 1 0 100 0 [mk_txn 1 [] [mk_txout 1 1 1000 1000 11]].
Definition c07_b1 : block := mk_block 2 1 200 11 [mk_txn 2 [1] [mk_txout 2 2 1000 10 22]].
Definition c07_pool : pool := [mk_txn 3 [1] [mk_txout 3 3 1000 10 0]].
Theorem C07_balance_total_refuted :
  exists n, run_ops [OBlock c07_g; OBlock c07_b1] = Some n /\ wf_chain [c07_g; c07_b1] /\
            q_balance true n c07_pool [2] = Val (inl "GetArray failed when checking addresses balance"%string).
Proof. eexists. split; [vm_compute; reflexivity|]. split; vm_compute; reflexivity. Qed.
Print Assumptions C07_balance_total_refuted.

(* non-vacuity: a history with a spend, a reopening that rebuilds index and history, queries *)
Example C07_example :
  let ops := [OBlock c07_g; OBlock c07_b1; OReopen (IdxSet [] None) HistNoParsed [2]] in
  wf_ops_from [] ops /\
  (exists n, run_ops ops = Some n /\ q_unspents n 2 = Some [2] /\ q_addr_count n = 1 /\ q_uxhash n = 22 /\
             option_map hout_obs (q_uxout n 1) = Some (1, 100, 0, 0, 1, 1000, 1000, 2, 1) /\
             q_balance true n [] [1; 2] = Val (inr [(0, 0, 0, 0); (1000, 10, 1000, 10)])).
Proof.
  split.
  - cbn [wf_ops_from]. repeat split; try reflexivity; try discriminate.
  - eexists. split; [vm_compute; reflexivity|]. repeat split; vm_compute; reflexivity.
Qed.
Print Assumptions C07_example.
