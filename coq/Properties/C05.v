(* C05 — Blocks made by the publisher are valid and pick conflicts deterministically.
   Statements only; proofs are in Proofs/BlockCreateProofs.v, the model
   (create_block, candidates, follower_accepts, txn_lt, block_spec_b) in
   Model/BlockCreate.v. `wf_pool_b` (sizes in 1..2^32-1, fees in uint64,
   distinct hashes) is evaluated on every generated pool. *)
From Coq Require Import Sorting.Permutation Sorting.Sorted.
From Sky Require Import Base.Uint Model.BlockCreate Proofs.BlockCreateProofs.
Open Scope Z_scope.

(* the order "fee per kB descending (fee*1024 saturating at 2^64-1), hash
   ascending" is a strict total order on transactions with distinct hashes ... *)
Theorem C05_order_strict_total :
  (forall a, ~ txn_lt a a) /\
  (forall a b c, txn_lt a b -> txn_lt b c -> txn_lt a c) /\
  (forall a b, ph a <> ph b -> txn_lt a b \/ txn_lt b a).
Proof. exact order_strict_total. Qed.
Print Assumptions C05_order_strict_total.

(* ... so the sorted list is unique whatever algorithm sort.Sort uses (it is not stable) *)
Theorem C05_sorted_unique : forall l1 l2,
  StronglySorted txn_lt l1 -> StronglySorted txn_lt l2 -> Permutation l1 l2 -> l1 = l2.
Proof. exact sorted_unique. Qed.
Print Assumptions C05_sorted_unique.

Theorem C05_sort_txns_correct : forall l l', wf_pool_b l = true ->
  (forall t, In t l -> pfee t <> None) ->
  Permutation l l' -> StronglySorted txn_lt l' -> sort_txns l = Val l'.
Proof. exact sort_txns_correct. Qed.
Print Assumptions C05_sort_txns_correct.

(* every created block contains only pool transactions that satisfy all hard and
   soft rules (the creation filter's verdict) ... *)
Theorem C05_created_from_pool : forall mb pool b, wf_pool_b pool = true ->
  create_block mb pool = Val (inl b) -> forall t, In t b -> In t pool.
Proof. exact created_from_pool. Qed.
Print Assumptions C05_created_from_pool.

Theorem C05_created_all_valid : forall mb pool b, wf_pool_b pool = true ->
  create_block mb pool = Val (inl b) ->
  forall t, In t b -> pok_create t = true /\ pok_block t = true /\ pfee t <> None.
Proof. exact created_all_valid. Qed.
Print Assumptions C05_created_all_valid.

(* ... lists them by fee per kilobyte, highest first, ties by lowest hash ... *)
Theorem C05_created_sorted : forall mb pool b, wf_pool_b pool = true ->
  create_block mb pool = Val (inl b) -> StronglySorted txn_lt b.
Proof. exact created_sorted. Qed.
Print Assumptions C05_created_sorted.

(* ... respects the configured block size and the transaction count limit ... *)
Theorem C05_created_size : forall mb pool b, wf_pool_b pool = true ->
  create_block mb pool = Val (inl b) ->
  sum_sizes b <= mb /\ Z.of_nat (List.length b) <= MaxBlockTransactions.
Proof. exact created_size. Qed.
Print Assumptions C05_created_size.

(* ... and passes the transaction checks of an independent (non-arbitrating)
   node: non-empty, every transaction hard-valid, no duplicates, no output
   spent twice. (Header, body hash and signature are outside this model and are
   observed on the real follower node by the check.) *)
Theorem C05_created_accepted : forall mb pool b, wf_pool_b pool = true ->
  create_block mb pool = Val (inl b) -> follower_accepts b = true.
Proof. exact created_accepted. Qed.
Print Assumptions C05_created_accepted.

(* Conflicts. c = the candidates: valid for creation, inside the size/count cut,
   hard-valid, in fee order. A candidate is in the block exactly when no
   transaction OF THE BLOCK that comes before it in the order spends one of
   its inputs. *)
Theorem C05_conflict_choice : forall mb pool b, wf_pool_b pool = true ->
  create_block mb pool = Val (inl b) ->
  exists c, candidates mb pool = Val c /\
    (forall t, In t b -> In t c) /\
    (forall t, In t c -> (In t b <-> forall s, In s b -> txn_lt s t -> shares s t = false)).
Proof. exact conflict_choice. Qed.
Print Assumptions C05_conflict_choice.

(* a candidate is left out only because an included transaction that comes first conflicts with it *)
Theorem C05_conflict_loser : forall mb pool b, wf_pool_b pool = true ->
  create_block mb pool = Val (inl b) ->
  forall c t, candidates mb pool = Val c -> In t c -> ~ In t b ->
  exists s, In s b /\ txn_lt s t /\ shares s t = true.
Proof. exact conflict_loser. Qed.
Print Assumptions C05_conflict_loser.

Theorem C05_conflict_first_wins : forall mb pool b, wf_pool_b pool = true ->
  create_block mb pool = Val (inl b) ->
  forall c s t, candidates mb pool = Val c -> In t c -> In s b ->
  txn_lt s t -> shares s t = true -> ~ In t b.
Proof. exact conflict_first_wins. Qed.
Print Assumptions C05_conflict_first_wins.

Theorem C05_conflict_at_most_one : forall mb pool b, wf_pool_b pool = true ->
  create_block mb pool = Val (inl b) ->
  forall s t, s <> t -> shares s t = true -> ~ (In s b /\ In t b).
Proof. exact conflict_at_most_one. Qed.
Print Assumptions C05_conflict_at_most_one.

(* "when pending transactions conflict, exactly one of them is included and it
   is the one that comes first in that order": two conflicting candidates s
   before t, s not itself beaten by an earlier candidate => s is in, t is out.
   (The pairwise reading without the side condition is unsatisfiable: in a chain
   A-B-C it would require B both out, because of A, and in, because of C.) *)
Theorem C05_conflict_exactly_first : forall mb pool b, wf_pool_b pool = true ->
  create_block mb pool = Val (inl b) ->
  forall c s t, candidates mb pool = Val c -> In s c -> In t c ->
  txn_lt s t -> shares s t = true ->
  (forall u, In u c -> txn_lt u s -> shares u s = false) ->
  In s b /\ ~ In t b.
Proof. exact conflict_exactly_first. Qed.
Print Assumptions C05_conflict_exactly_first.

(* F19: with the pairwise loop as it was before the fix (arbitrate_f19) the
   statement C05_conflict_loser is false: conflict chain A-B-C, block = [A];
   C is a candidate, is left out, and nothing in the block conflicts with it.
   The harness replays this shape on the real publisher node in every run. *)
Theorem C05_conflict_choice_f19_refuted :
  exists mb pool b c t,
    wf_pool_b pool = true /\ create_block_f19 mb pool = Val (inl b) /\
    candidates mb pool = Val c /\ In t c /\ ~ In t b /\
    (forall s, In s b -> shares s t = false).
Proof. exact conflict_choice_f19_refuted_l. Qed.
Print Assumptions C05_conflict_choice_f19_refuted.

(* deterministic: the outcome (block, error or panic) depends only on the set
   of pooled transactions *)
Theorem C05_create_deterministic : forall mb pool pool', wf_pool_b pool = true ->
  Permutation pool pool' -> create_block mb pool = create_block mb pool'.
Proof. exact create_deterministic. Qed.
Print Assumptions C05_create_deterministic.

(* under visor.Config.Verify's invariant (a creation-valid transaction fits the
   block limit) createBlockFromTxns never reaches its logger.Panic *)
Theorem C05_create_no_panic : forall mb pool, wf_pool_b pool = true ->
  (forall t, In t pool -> pok_create t = true -> pfee t <> None /\ psize t <= mb) ->
  create_block mb pool <> Panic.
Proof. exact create_no_panic. Qed.
Print Assumptions C05_create_no_panic.

(* the model's block satisfies the decidable specification block_spec_b, the
   same predicate the check evaluates on the block the implementation made *)
Theorem C05_create_meets_spec : forall mb pool b, wf_pool_b pool = true ->
  create_block mb pool = Val (inl b) ->
  (forall t, In t pool -> pok_create t = true -> pfee t <> None) -> mb < 2 ^ 32 ->
  block_spec_b mb pool b = true.
Proof. exact create_meets_spec. Qed.
Print Assumptions C05_create_meets_spec.

(* non-vacuity: a pool with a conflict chain, a tie in fee/kB, a saturating fee,
   a soft-invalid and a hard-invalid entry, and a size limit that cuts *)
Example C05_example :
  let A := mkP 50 (Some 300) 100 [1; 2] true true in
  let B := mkP 40 (Some 200) 100 [2; 3] true true in
  let C := mkP 30 (Some 100) 100 [3; 4] true true in
  let D := mkP 20 (Some 100) 100 [5] true true in          (* ties with C: lower hash first *)
  let E := mkP 10 (Some 1152921504606846976) 200 [6] true true in (* 2^60: fee*1024 saturates *)
  let S := mkP 60 (Some 999) 100 [7] false true in         (* soft-invalid *)
  let H := mkP 70 None 100 [8] false false in              (* hard-invalid *)
  let Z := mkP 80 (Some 1) 100 [9] true true in            (* beyond the cut *)
  let pool := [E; D; C; B; A; S; H; Z] in
  wf_pool_b pool = true /\
  create_block 600 pool = Val (inl [E; A; D; C]) /\
  candidates 600 pool = Val [E; A; B; D; C] /\
  block_spec_b 600 pool [E; A; D; C] = true.
Proof. vm_compute. repeat split; reflexivity. Qed.
