(* C08 — The chain database recovers from a crash at any point (PARTIAL inside
   commits: bolt's page layer is modelled, not verified; see DESIGN 6.8). *)
From Coq Require Import ZArith List Bool.
From Sky Require Import Model.Crash Proofs.CrashProofs.
Import ListNotations.
Open Scope Z_scope.

(* A. a crash at ANY prefix of a commit's page writes, with the meta page
   missing, torn or complete, recovers the old snapshot intact, or — only once
   everything is written — the new one intact. Hypotheses: copy-on-write (`cow`)
   and the alternating valid meta (`pre_ok`) — the model's assumptions about bolt. *)
Theorem C08_commit_atomic : forall st c j mw,
  cow c = true -> pre_ok st c = true -> (j <= length (c_dirty c))%nat ->
  let st' := crash_state st c j mw in
  match mw with
  | MetaFull => j = length (c_dirty c) ->
      recover st' = Some (c_new c) /\ intact st' (c_new_reach c) = true
  | _ => recover st' = Some (c_old c) /\ intact st' (c_old_reach c) = true
  end.
Proof. exact commit_atomic. Qed.
Print Assumptions C08_commit_atomic.

(* B. crash between ANY two commits of the scripted life-cycle (creation,
   genesis, any list of block acceptances, pool updates - including pool
   transactions that a later block makes invalid - and pool clean-ups), restart
   (visor.New + Init, which cleans the pool), EVERYTHING delivered again from
   the start: after the periodic pool clean-up (`settle`) the state equals that
   of the node that never crashed. `wf_work 1 work`: the blocks of the work list
   carry the sequence numbers 1, 2, ... (evaluated on the harness's work list). *)
Theorem C08_crash_between_commits : forall g work k, wf_work 1 work = true ->
  settle (run (restart g (run empty_db (firstn k (script g work)))) work)
  = settle (run empty_db (script g work)).
Proof. exact crash_between_commits. Qed.
Print Assumptions C08_crash_between_commits.

(* the same when only the operations not yet committed are delivered *)
Theorem C08_crash_then_remaining : forall g work k,
  settle (run (restart g (run empty_db (firstn k (script g work)))) (skipn k (script g work)))
  = settle (run empty_db (script g work)).
Proof. exact crash_then_remaining. Qed.
Print Assumptions C08_crash_then_remaining.

(* "the same state" has to be read after the pool clean-up: the restarted node
   has already dropped a pool transaction that a block made invalid, the node
   that never stopped drops it at its next periodic clean-up *)
Theorem C08_crash_without_settle_refuted :
  exists g work k, wf_work 1 work = true /\
    run (restart g (run empty_db (firstn k (script g work)))) work <> run empty_db (script g work).
Proof. exact crash_without_settle_refuted. Qed.
Print Assumptions C08_crash_without_settle_refuted.

(* non-vacuity: a life-cycle with a pool transaction killed by a block, crashed
   right after that block *)
Example C08_lifecycle_example :
  let work := [Inject 7; ExecBlock 1 [5] [7]; Inject 9; Cleanup; ExecBlock 2 [9] []; Inject 11] in
  wf_work 1 work = true /\
  pool (run empty_db (firstn 4 (script 0 work))) = [7] /\
  pool (restart 0 (run empty_db (firstn 4 (script 0 work)))) = [] /\
  pool (settle (run empty_db (script 0 work))) = [11].
Proof. repeat split; vm_compute; reflexivity. Qed.
Print Assumptions C08_lifecycle_example.

Theorem C08_restart_idempotent : forall g s, restart g (restart g s) = restart g s.
Proof. exact restart_idempotent. Qed.
Print Assumptions C08_restart_idempotent.

(* C. the integrity verification (WalkChain's goroutine skeleton, repaired
   producer) terminates under EVERY schedule within a bound that depends only
   on the chain length and worker count, never deadlocks, and returns nil when
   no read or signature check fails — for every chain length INCLUDING 0 *)
Theorem C08_walk_bounded : forall fixed failing n s s',
  wsteps fixed failing n s s' -> (n + wmeasure s' <= wmeasure s)%nat.
Proof. exact walk_bounded. Qed.
Print Assumptions C08_walk_bounded.

Theorem C08_walk_progress : forall n w0 s, (1 <= w0)%nat ->
  wreach true false (winit n w0) s -> w_main s <> MRet -> exists s', wstep true false s s'.
Proof. exact walk_progress. Qed.
Print Assumptions C08_walk_progress.

Theorem C08_walk_result_ok : forall fixed n w0 s,
  wreach fixed false (winit n w0) s -> w_main s = MRet -> w_result s = Some true.
Proof. exact walk_result_ok. Qed.
Print Assumptions C08_walk_result_ok.

(* the producer as it was before fix 888b9203a deadlocks on an empty chain (F2) *)
Theorem C08_walk_deadlock_unfixed_refuted :
  exists s, wreach false true (winit 0 4) s /\ w_main s <> MRet /\ forall s', ~ wstep false true s s'.
Proof. exact walk_deadlock_refuted. Qed.
Print Assumptions C08_walk_deadlock_unfixed_refuted.

(* non-vacuity: a concrete commit satisfying cow and pre_ok, crashed mid-way *)
Example C08_example :
  let c := {| c_old := 7; c_new := 8; c_txid := 18;
              c_old_reach := [(1000, 7); (1001, 7)]; c_new_reach := [(1000, 7); (2000, 8); (2001, 8)];
              c_dirty := [(2000, 8); (2001, 8)] |} in
  let st := {| pages := [(1000, 7); (1001, 7)];
               meta0 := {| m_txid := 16; m_snap := 6; m_ok := true |};
               meta1 := {| m_txid := 17; m_snap := 7; m_ok := true |} |} in
  cow c = true /\ pre_ok st c = true /\
  recover (crash_state st c 1 MetaTorn) = Some 7 /\ recover (crash_state st c 2 MetaFull) = Some 8.
Proof. repeat split; vm_compute; reflexivity. Qed.
Print Assumptions C08_example.
