(* C26 — The peer list only contains valid peers and respects its bound.
   Statements only, over the executable model Model/Pex.v of
   /repo/src/daemon/pex (pex.go, peerlist.go), tied to the code by the
   correspondence check of every run. Strings are byte lists; `strip` removes the
   bytes regexp \s matches. Time, the rand.Shuffle permutation and the map-order
   dependent choice of the evicted peer are inputs of the operations, so every
   theorem holds for all of them. *)
From Sky Require Import Base.Uint Model.Pex Proofs.PexProofs.
Open Scope Z_scope.

(* validateAddress accepts exactly the strings whose whitespace-stripped form is
   "a.b.c.d:port": four decimal octets 0..255 without leading zeros, global
   unicast (or loopback when allowed), port a non-empty decimal digit string
   (leading zeros are accepted by strconv.ParseUint) with 1024 <= value <= 65535;
   and it returns the stripped string *)
Theorem C26_validate_iff : forall s allow,
  (exists c, validate_address s allow = VAccept c) <->
  (exists o1 o2 o3 o4 p,
     strip s = o1 ++ [46] ++ o2 ++ [46] ++ o3 ++ [46] ++ o4 ++ [58] ++ p /\
     octet o1 /\ octet o2 /\ octet o3 /\ octet o4 /\
     p <> [] /\ digits p /\ 1024 <= num p <= 65535 /\
     ip_ok allow (num o1) (num o2) (num o3) (num o4)).
Proof. exact validate_iff. Qed.
Print Assumptions C26_validate_iff.

Theorem C26_validate_returns_stripped : forall s allow c,
  validate_address s allow = VAccept c -> c = strip s.
Proof. exact validate_accept_clean. Qed.
Print Assumptions C26_validate_returns_stripped.

(* after ANY operation sequence every address in the peer list has the valid form *)
Theorem C26_all_valid : forall max allow ops k,
  In k (keys (run max allow [] ops)) -> valid_form allow k.
Proof. exact all_valid_from_empty. Qed.
Print Assumptions C26_all_valid.

(* initial-state lemma: pex.New on ANY cache file (peers.json / peers.txt members in
   file order; loadCachedPeersFile validates with allowLocalhost = true, loadCache
   re-validates under the CONFIGURED policy and keeps at most Max, then
   setAllUntrusted, default connections, DisableTrustedPeers, then the CustomPeersFile
   added in file order as far as Max allows) starts with valid
   addresses only — and so does every later state, including after save() + restart
   and after consuming a downloaded peer list (xop Download) *)
Theorem C26_all_valid_from_cache : forall max allow disable es kept defaults custom now l0 xs k,
  start max allow disable es kept defaults custom now = Some l0 ->
  In k (keys (xrun max allow l0 xs)) -> valid_form allow k.
Proof. exact all_valid_from_cache. Qed.
Print Assumptions C26_all_valid_from_cache.

Theorem C26_bound_from_cache : forall max allow disable es kept defaults custom now l0 xs,
  0 < max -> start max allow disable es kept defaults custom now = Some l0 -> plen (xrun max allow l0 xs) <= max.
Proof. exact bound_from_cache. Qed.
Print Assumptions C26_bound_from_cache.

(* AddPeers never grows the list beyond Max (Max = 0 means unbounded) when it was within Max *)
Theorem C26_bulk_bound : forall max allow l addrs perm now,
  0 < max -> plen l <= max -> plen (fst (add_peers_op max allow l addrs perm now)) <= max.
Proof. exact bulk_bound. Qed.
Print Assumptions C26_bulk_bound.

(* ... and so does every other operation, hence every sequence from the empty list *)
Theorem C26_bound_every_op : forall max allow l o,
  0 < max -> plen l <= max -> plen (fst (step max allow l o)) <= max.
Proof. exact step_bound. Qed.
Print Assumptions C26_bound_every_op.

(* a trusted peer is still in the list and trusted after any operation other than
   RemovePeer of that very address and setAllUntrusted: neither the eviction in
   AddPeer nor clearOld ever drops it *)
Theorem C26_trusted_kept : forall max allow l o a,
  trusted_at l a -> o <> RemovePeer a -> o <> SetAllUntrusted ->
  trusted_at (fst (step max allow l o)) a.
Proof. exact trusted_kept. Qed.
Print Assumptions C26_trusted_kept.

(* non-vacuity: a full list (Max 1) whose only peer is two days old is evicted for a
   new peer; a trusted old peer is not; whitespace and a zero-padded port are accepted *)
Example C26_example :
  let a1 := [49;46;50;46;51;46;52;58;54;48;48;48] in      (* "1.2.3.4:6000" *)
  let a2 := [53;46;54;46;55;46;56;58;48;54;48;48;49] in   (* "5.6.7.8:06001" *)
  validate_address (32 :: a1 ++ [10]) false = VAccept a1 /\
  validate_address a2 false = VAccept a2 /\
  keys (run 1 false [] [AddPeer a1 1000000 None; Aged a1 800000; AddPeer a2 1000000 (Some a1)]) = [a2] /\
  keys (run 1 false [] [AddPeer a1 1000000 None; SetTrusted a1; Aged a1 800000; AddPeer a2 1000000 (Some a1)]) = [a1].
Proof. vm_compute. repeat split. Qed.
Print Assumptions C26_example.
