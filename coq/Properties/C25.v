(* C25 — Only correctly introduced peers reach the protocol.
   Statements only, over the executable model Model/Intro.v of
   IntroductionMessage.Verify (/repo/src/daemon/messages.go) and of the gate of
   Daemon.onMessageEvent (/repo/src/daemon/daemon.go), tied to the code by the
   correspondence check of every run. `sub e lo n` = the n bytes of e from
   offset lo; `ua_valid` = useragent.Parse(useragent.Sanitize(.)) succeeds (an
   arbitrary predicate here: the theorems hold for every such predicate). *)
From Sky Require Import Base.Uint Model.Intro Proofs.IntroProofs.
Open Scope Z_scope.

(* Verify returns nil exactly when: not a self connection; version >= minimum;
   Extra starts with this network's blockchain pubkey (33 bytes); burn factor >= 2,
   max transaction size >= 1024, max decimals <= 6 (9 bytes, little endian); a
   4-byte length n <= 256 followed by n bytes inside Extra that form a valid user
   agent; and after it either nothing or at least 32 bytes (the genesis hash is
   recorded, NOT compared with ours) *)
Theorem C25_intro_iff : forall ua_valid dc m, is_bytes (im_extra m) ->
  ((exists a, intro_verify ua_valid dc m = Val (Accept a)) <->
   (let e := im_extra m in
    im_mirror m <> cfg_mirror dc /\
    cfg_min_version dc <= im_version m /\
    42 <= blen e /\
    sub e 0 33 = cfg_pubkey dc /\
    2 <= le_val (sub e 33 4) /\ 1024 <= le_val (sub e 37 4) /\ le_val (sub e 41 1) <= 6 /\
    46 <= blen e /\
    (let n := le_val (sub e 42 4) in
     n <= 256 /\ 46 + n <= blen e /\ ua_valid (sub e 46 n) = true /\
     (blen e = 46 + n \/ 32 <= blen e - (46 + n))))).
Proof. exact intro_iff. Qed.
Print Assumptions C25_intro_iff.

(* no slice of Verify is out of range, for ANY Extra byte string *)
Theorem C25_intro_total : forall ua_valid dc m, is_bytes (im_extra m) -> intro_verify ua_valid dc m <> Panic.
Proof. exact intro_total. Qed.
Print Assumptions C25_intro_total.

(* what an accepted introduction leaves in the connection record *)
Theorem C25_intro_accept_records : forall ua_valid dc m a, is_bytes (im_extra m) ->
  intro_verify ua_valid dc m = Val (Accept a) ->
  let e := im_extra m in let n := le_val (sub e 42 4) in
  ac_burn a = le_val (sub e 33 4) /\ ac_max_txn_size a = le_val (sub e 37 4) /\ ac_max_decimals a = le_val (sub e 41 1) /\
  ac_user_agent a = sub e 46 n /\ ua_valid (ac_user_agent a) = true /\
  ac_genesis a = copy_hash (skipn (Z.to_nat (46 + n)) e).
Proof. exact intro_accept_records. Qed.
Print Assumptions C25_intro_accept_records.

(* the gate (it has no configuration input: LogPings, pex.Disabled, DisableNetworking
   make no difference, which the correspondence checks under each of them): on a live,
   not yet introduced connection every message other than
   INTR / DISC / GIVP is answered by DisconnectMessage(NoIntroduction) and is not
   processed (the state does not change) *)
Theorem C25_gate : forall c k, alive c = true -> introduced c = false -> passes_gate k = false ->
  gate_step c k = (c, [SDisconnect RNoIntroduction]).
Proof. exact gate. Qed.
Print Assumptions C25_gate.

Theorem C25_passes_gate_iff : forall k,
  passes_gate k = true <-> (exists v, k = KIntro v) \/ k = KDisc \/ k = KGivePeers.
Proof. exact passes_gate_iff. Qed.
Print Assumptions C25_passes_gate_iff.

(* a connection becomes introduced only through an introduction that Verify accepts *)
Theorem C25_introduced_only_by_accepted_intro : forall c k,
  introduced (fst (gate_step c k)) = true -> introduced c = true \/ exists a, k = KIntro (Accept a).
Proof. exact introduced_only_by_accepted_intro. Qed.
Print Assumptions C25_introduced_only_by_accepted_intro.

(* non-vacuity: a 46-byte-header message with user agent "a:1.2.3" and no genesis
   hash is accepted; the same with 31 trailing bytes, a wrong pubkey byte, or sent
   before... is rejected; GetBlocks before the introduction is answered by a disconnect *)
Example C25_example :
  let pk := repeat 2 33 in
  let dc := mkConfig 4660 2 pk in
  let ua := [97; 58; 49; 46; 50; 46; 51] in
  let e := pk ++ [10;0;0;0; 0;128;0;0; 3] ++ [7;0;0;0] ++ ua in
  let orc := fun s => bytes_eqb s ua in
  (exists a, intro_verify orc dc (mkIntro 7 3 e) = Val (Accept a)) /\
  intro_verify orc dc (mkIntro 7 3 (e ++ repeat 0 31)) = Val (Reject RInvalidExtraData) /\
  intro_verify orc dc (mkIntro 7 3 (3 :: tl e)) = Val (Reject RPubkeyNotMatched) /\
  intro_verify orc dc (mkIntro 4660 3 e) = Val (Reject RSelf) /\
  gate_step fresh_conn KGetBlocks = (fresh_conn, [SDisconnect RNoIntroduction]).
Proof. cbv zeta. split; [eexists; vm_compute; reflexivity|]. vm_compute. repeat split. Qed.
Print Assumptions C25_example.
