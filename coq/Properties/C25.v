(* C25 — placeholder while the proofs are being written. *)
From Sky Require Import Base.Uint Model.Intro.
