(* C01 — Coin supply is conserved by every ledger history.
   Statements only; each is closed by `exact` of a lemma proved over the ledger
   model (Model/Ledger.v), whose 64-bit sums are the translated
   mathutil.AddUint64 (Gen/Mathutil.v, specification from C31).
   `run (init_state g) ops` is the state after Visor.Init with genesis block g
   followed by ANY list of submitted signed blocks (accepted or not). *)
From Sky Require Import Base.Uint Gen.Mathutil Model.Ledger Model.LedgerSpec Model.LedgerObs
  Proofs.LedgerBasics Proofs.LedgerProofs Proofs.LedgerSupply Proofs.LedgerArb Proofs.LedgerArbSupply
  Proofs.LedgerPremises Proofs.LedgerExample.
Open Scope Z_scope.

(* the sum, in Z, of the unspent coins equals the genesis volume after every history *)
Theorem C01_supply_conserved : forall g ops, genesis_wf g -> ops_in_range ops ->
  sumZ (map u_coins (utxo (run (init_state g) ops))) = genesis_volume g.
Proof. exact supply_conserved. Qed.
Print Assumptions C01_supply_conserved.

(* the invariant step uses only the transaction-level checks and the unspent-set
   update — whatever the header-level checks (C04) decided about the block:
   unspent ids distinct, amounts 64-bit, sum = G is preserved *)
Theorem C01_supply_step : forall G s b head spent,
  process_txns (utxo s) head (b_txns b) = Pass ->
  get_array (all_ins (b_txns b)) (utxo s) = Some spent ->
  insert_ok s b = true ->
  block_in_range b -> inv_supply G s -> inv_supply G (apply_block s b spent).
Proof. exact apply_preserves_supply. Qed.
Print Assumptions C01_supply_step.

(* every transaction of an accepted block finds all its inputs in the unspent
   set, and their coins equal the coins of its outputs, as integers below 2^64 *)
Theorem C01_accepted_balanced : forall g ops b s', genesis_wf g -> ops_in_range ops -> block_in_range b ->
  step (run (init_state g) ops) (ExecBlock b) = (s', Accepted) ->
  Forall (fun t => exists uxin,
            get_array (t_ins t) (utxo (run (init_state g) ops)) = Some uxin /\
            sumZ (map u_coins uxin) = sumZ (map o_coins (t_outs t)) /\
            0 <= sumZ (map u_coins uxin) < 2 ^ 64) (b_txns b).
Proof. exact accepted_balanced. Qed.
Print Assumptions C01_accepted_balanced.

(* no sum silently overflows: the checked 64-bit addition chain used by the
   coin checks returns the integer sum, or an error *)
Theorem C01_checked_sum : forall l acc v, in_u 64 acc -> Forall (in_u 64) l ->
  add_all acc l = Val (Some v) -> v = acc + sumZ l /\ in_u 64 v.
Proof. exact add_all_spec. Qed.
Print Assumptions C01_checked_sum.

(* a rejected block leaves the whole state, hence the supply, untouched *)
Theorem C01_reject_noop : forall s b s' o, exec_block s b = (s', o) -> o <> Accepted -> s' = s.
Proof. exact exec_reject_noop. Qed.
Print Assumptions C01_reject_noop.

(* ---- the same on an ARBITRATING node (block publisher configuration), where
   processTransactions sorts the offered transactions and silently drops the
   invalid / conflicting ones: `run_arb` executes the ops with exec_block_arb *)
Theorem C01_supply_conserved_arb : forall g ops, genesis_wf g -> ops_in_range ops ->
  sumZ (map u_coins (utxo (run_arb (init_state g) ops))) = genesis_volume g.
Proof. exact supply_conserved_arb. Qed.
Print Assumptions C01_supply_conserved_arb.

(* the block an arbitrating node stores has the offered header and a body that
   is part of the offered body, all of whose transactions are balanced *)
Theorem C01_kept_balanced_arb : forall g ops b s', genesis_wf g -> ops_in_range ops -> block_in_range b ->
  step_arb (run_arb (init_state g) ops) (ExecBlock b) = (s', Accepted) ->
  exists stored, chain s' = stored :: chain (run_arb (init_state g) ops) /\
    b_head stored = b_head b /\ b_hash stored = b_hash b /\ incl (b_txns stored) (b_txns b) /\
    Forall (fun t => exists uxin,
              get_array (t_ins t) (utxo (run_arb (init_state g) ops)) = Some uxin /\
              sumZ (map u_coins uxin) = sumZ (map o_coins (t_outs t)) /\
              0 <= sumZ (map u_coins uxin) < 2 ^ 64) (b_txns stored).
Proof. exact kept_balanced_arb. Qed.
Print Assumptions C01_kept_balanced_arb.

(* whatever list of transactions it is offered, arbitrating processTransactions
   keeps a sub-list that satisfies what the unspent-set update needs *)
Theorem C01_arbitration_ok : forall pool head ts l, process_txns_arb pool head ts = ArbOk l ->
  txns_ok pool head l /\ incl l ts.
Proof. exact process_txns_arb_ok. Qed.
Print Assumptions C01_arbitration_ok.

(* the boolean premises evaluated on every generated history imply the premises above *)
Theorem C01_premises_checked : forall h, premises_b h = true ->
  genesis_wf (hi_genesis h) /\ ops_in_range (hist_ops h) /\
  ids_consistent (hi_genesis h) (ops_txns (hist_ops h)).
Proof. exact premises_sound. Qed.
Print Assumptions C01_premises_checked.

(* non-vacuity: a concrete history (spend, double spend, wrong parent, second
   genesis) meets the premises; block 1 is accepted and the supply stays 1000 *)
Example C01_example :
  (genesis_wf ex_g /\ ops_in_range ex_ops /\ ids_consistent ex_g (ops_txns ex_ops)) /\
  snd (step (init_state ex_g) (ExecBlock ex_b1)) = Accepted /\
  sumZ (map u_coins (utxo (run (init_state ex_g) ex_ops))) = 1000.
Proof. split; [exact ex_premises|]. vm_compute. split; reflexivity. Qed.
Print Assumptions C01_example.

(* non-vacuity, arbitrating: offered a signed block with a good transaction and
   one creating 50 coins, the node keeps the good one only; supply stays 1000 *)
Example C01_example_arb :
  (genesis_wf ex_g /\ ops_in_range ex_ops_arb /\ ids_consistent ex_g (ops_txns ex_ops_arb)) /\
  snd (step_arb (run_arb (init_state ex_g) [ExecBlock ex_b1]) (ExecBlock ex_b4)) = Accepted /\
  map (fun b => map t_hash (b_txns b)) (chain (run_arb (init_state ex_g) ex_ops_arb)) = [[37]; [6]; [2]] /\
  sumZ (map u_coins (utxo (run_arb (init_state ex_g) ex_ops_arb))) = 1000.
Proof. split; [exact ex_premises_arb|]. vm_compute. repeat split. Qed.
Print Assumptions C01_example_arb.

(* ---- the model's coin / hour spending checks ARE the code (added by the
   translator-tie builder; proofs in Proofs/LedgerRefine.v): the hand-written
   coins_spending / hours_spending of Model/Ledger.v are equal, for ALL inputs
   (no range hypotheses), to the Gallina regenerated from
   src/coin/transactions.go on every run (Gen/CoinLoops.v), applied to the
   fields the Go functions read (inputs: Body.Coins resp. (Head.Time, Body.Coins,
   Body.Hours); outputs: Coins resp. Hours), with the translated function's error
   message classified into the model's enum (coins_err_class / hours_err_class).
   A change of meaning of coin.VerifyTransactionCoinsSpending — the check that
   C01_supply_step rests on — breaks a proof obligation here. *)
From Sky Require Gen.CoinLoops.
From Sky Require Import Proofs.LedgerRefine.

Theorem C01_coins_spending_is_translated : forall uxin outs,
  coins_spending uxin outs =
  chk_of coins_err_class
    (CoinLoops.VerifyTransactionCoinsSpending (map u_coins uxin) (map o_coins outs)).
Proof. exact coins_spending_refines. Qed.
Print Assumptions C01_coins_spending_is_translated.

Theorem C01_hours_spending_is_translated : forall T uxin outs,
  hours_spending T uxin outs =
  chk_of hours_err_class
    (CoinLoops.VerifyTransactionHoursSpending T (map ux_proj uxin) (map o_hours outs)).
Proof. exact hours_spending_refines. Qed.
Print Assumptions C01_hours_spending_is_translated.
