(* C13 — Wallet signing signs exactly the requested inputs.
   Statements only; proofs in Proofs/SignProofs.v over Model/Sign.v, which mirrors
   wallet.SignTransaction / coin.Transaction.SignInput.  The signature scheme is
   abstract: `sign`, `addr_of`, `msg_of`, `verify` are universally quantified and
   the laws used (a signature is never the null signature; distinct secret keys
   have distinct addresses; verify (addr_of k) (sign k m) m = true) are premises.
   Premise `len sigs = len ins`: the transaction has one signature slot per input
   (visor verifies this before calling; otherwise SignTransaction panics on an
   out-of-range index — modelled and compared, see Corr/C13_prop.v). *)
From Sky Require Import Base.Uint Model.TxVerify Model.Create Model.Sign Proofs.SignProofs.
Open Scope Z_scope.

(* success => the wallet can sign; inputs, outputs, inner hash unchanged; exactly
   the requested (or, if none are named, all unsigned) positions now hold the
   signature of a wallet key that owns the spent output; every other position
   is as before *)
Theorem C13_sign_exact : forall (sign : Z -> Z -> Z) (addr_of : Z -> Z) (msg_of : Z -> Z -> Z),
  (forall k m, sign k m <> 0) ->
  (forall k1 k2, addr_of k1 = addr_of k2 -> k1 = k2) ->
  forall w t idxs owners t',
  len (s_sigs t) = len (s_ins t) ->
  sign_tx sign addr_of msg_of w t idxs owners = Val (inr t') ->
  w_kind w <> KXPub /\ w_encrypted w = false /\
  s_ins t' = s_ins t /\ s_outs t' = s_outs t /\ s_inner t' = s_inner t /\
  len (s_sigs t') = len (s_sigs t) /\
  (forall i, In i (targets t idxs) ->
     znth (s_sigs t) i = Some 0 /\
     exists k h, In k (w_entries w) /\ znth owners i = Some (addr_of k) /\ znth (s_ins t) i = Some h /\
                 znth (s_sigs t') i = Some (sign k (msg_of (s_inner t) h))) /\
  (forall i, ~ In i (targets t idxs) -> znth (s_sigs t') i = znth (s_sigs t) i).
Proof. exact sign_tx_spec. Qed.
Print Assumptions C13_sign_exact.

(* the header precondition, explicitly: success implies InnerHash field = hash of
   the body (and the result carries that hash); a transaction whose InnerHash is
   anything else — null, another transaction's, corrupted — is refused with an
   error, nothing being signed.  C13_all_verify speaks of the FINAL inner hash. *)
Theorem C13_inner_precondition : forall (sign : Z -> Z -> Z) (addr_of : Z -> Z) (msg_of : Z -> Z -> Z) w t idxs owners t',
  sign_tx sign addr_of msg_of w t idxs owners = Val (inr t') ->
  s_inner t = s_inner_actual t /\ s_inner t' = s_inner_actual t /\ s_inner_actual t' = s_inner_actual t.
Proof. exact sign_tx_inner_ok. Qed.
Print Assumptions C13_inner_precondition.

Theorem C13_bad_inner_refused : forall (sign : Z -> Z -> Z) (addr_of : Z -> Z) (msg_of : Z -> Z -> Z) w t idxs owners,
  w_kind w <> KXPub -> w_encrypted w = false -> s_inner t <> s_inner_actual t ->
  sign_tx sign addr_of msg_of w t idxs owners = Val (inl ESInner).
Proof. exact sign_tx_bad_inner. Qed.
Print Assumptions C13_bad_inner_refused.

Theorem C13_no_overwrite : forall (sign : Z -> Z -> Z) (addr_of : Z -> Z) (msg_of : Z -> Z -> Z),
  (forall k m, sign k m <> 0) ->
  (forall k1 k2, addr_of k1 = addr_of k2 -> k1 = k2) ->
  forall w t idxs owners t' i s,
  len (s_sigs t) = len (s_ins t) ->
  sign_tx sign addr_of msg_of w t idxs owners = Val (inr t') ->
  znth (s_sigs t) i = Some s -> s <> 0 -> znth (s_sigs t') i = Some s.
Proof. exact no_overwrite. Qed.
Print Assumptions C13_no_overwrite.

Theorem C13_all_verify : forall (sign : Z -> Z -> Z) (addr_of : Z -> Z) (msg_of : Z -> Z -> Z) (verify : Z -> Z -> Z -> bool),
  (forall k m, sign k m <> 0) ->
  (forall k1 k2, addr_of k1 = addr_of k2 -> k1 = k2) ->
  (forall k m, verify (addr_of k) (sign k m) m = true) ->
  forall w t idxs owners t' i,
  len (s_sigs t) = len (s_ins t) ->
  sign_tx sign addr_of msg_of w t idxs owners = Val (inr t') ->
  In i (targets t idxs) ->
  exists a h s', znth owners i = Some a /\ znth (s_ins t) i = Some h /\ znth (s_sigs t') i = Some s' /\
                 s' <> 0 /\ verify a s' (msg_of (s_inner t') h) = true.
Proof. exact all_verify. Qed.
Print Assumptions C13_all_verify.

(* fail_atomic: the model is a pure function — a failing call returns an error
   and nothing else; that the implementation leaves the caller's transaction
   untouched (copyTransaction) is compared on every generated case
   (`untouched` in Corr/C13_prop.v).  An xpub or encrypted wallet never signs: *)
Theorem C13_cannot_sign : forall (sign : Z -> Z -> Z) (addr_of : Z -> Z) (msg_of : Z -> Z -> Z) w t idxs owners,
  (w_kind w = KXPub -> sign_tx sign addr_of msg_of w t idxs owners = Val (inl ErrWalletCantSign)) /\
  (w_kind w <> KXPub -> w_encrypted w = true -> sign_tx sign addr_of msg_of w t idxs owners = Val (inl ErrWalletEncrypted)).
Proof. exact cannot_sign. Qed.
Print Assumptions C13_cannot_sign.

(* non-vacuity with the concrete test scheme: wallet keys 1,2,3; inputs owned by
   2, 3, 2; position 1 already signed by key 3; sign position 2 only *)
Example C13_example :
  let w := mk_wallet KCollection false [1; 2; 3] in
  let t := mk_stx 9 9 [0; t_sign 3 12; 0] [11; 12; 13] [] in
  sign_tx t_sign t_addr_of t_msg_of w t [2] [2; 3; 2] =
    Val (inr (mk_stx 9 9 [0; t_sign 3 12; t_sign 2 13] [11; 12; 13] [])) /\
  sign_tx t_sign t_addr_of t_msg_of w t [] [2; 3; 2] =
    Val (inr (mk_stx 9 9 [t_sign 2 11; t_sign 3 12; t_sign 2 13] [11; 12; 13] [])) /\
  sign_tx t_sign t_addr_of t_msg_of w t [1] [2; 3; 2] = Val (inl ESAlready) /\
  sign_tx t_sign t_addr_of t_msg_of w t [0] [7; 3; 2] = Val (inl ESCannot) /\
  (* header never computed: InnerHash field null (id 0), body hash 9 *)
  sign_tx t_sign t_addr_of t_msg_of w (mk_stx 0 9 [0; 0; 0] [11; 12; 13] []) [] [2; 3; 2] = Val (inl ESInner).
Proof. vm_compute. repeat split; reflexivity. Qed.
Print Assumptions C13_example.
