(* C11 — Fee and soft rules accept exactly the transactions they should; soft
   failures are reported as soft, hard failures as hard.
   Statements only; each is closed by `exact` of a lemma proved about
   Model/Soft.v, whose arithmetic is the Gallina regenerated from /repo
   (Gen/Fee.v: VerifyTransactionFeeForHours, RequiredFee; Gen/Droplet.v:
   DropletPrecisionCheck; Gen/CoinHours.v; Gen/Mathutil.v; Gen/VerifyParams.v:
   VerifyTxn.Validate). *)
(* Gen.CoinLoops / Gen.FeeTxn first: unqualified names are the model's, the
   regenerated ones are written CoinLoops.f / FeeTxn.f *)
From Sky Require Import Gen.CoinLoops Gen.FeeTxn.
From Sky Require Import Base.Uint Model.ArithSpec Model.HoursSpec Model.Hours Model.SoftSpec Model.Soft
  Gen.Fee Gen.Droplet Gen.VerifyParams
  Proofs.FeeProofs Proofs.HoursProofs Proofs.SoftProofs Proofs.HoursRefine Proofs.SoftRefine.
Open Scope Z_scope.

(* the validated range of the parameters is what VerifyTxn.Validate accepts *)
Theorem C11_params_validate : forall p,
  in_u 32 (p_burn p) -> in_u 32 (p_maxsize p) -> in_u 8 (p_prec p) ->
  (VerifyTxn_Validate (p_burn p) (p_maxsize p) (p_prec p) = Val None <-> valid_params p).
Proof. exact Validate_spec. Qed.
Print Assumptions C11_params_validate.

(* the soft rules accept EXACTLY the transactions that are within the size
   limit, whose fee = (input hours at the head time) - (output hours) is
   non-zero and at least ceil(input hours / burn factor), that spend nothing
   owned by a locked distribution address, and whose output amounts respect the
   decimal precision. (hours_computable: every input's accrued hours, their sum
   and the outputs' sum fit in 64 bits — otherwise the fee is undefined and the
   transaction is rejected.) *)
Theorem C11_soft_iff : forall sz serr T ins outs d p,
  Forall wf_in ins -> Forall wf_out outs -> in_u 64 T -> valid_params p -> valid_dist d ->
  let fee := in_acc_sum T ins - out_sum outs in
  (verifyTxnSoftConstraints (sz, serr) T ins outs d p = Val None <->
   serr = None /\ sz <= p_maxsize p /\
   hours_computable T ins outs = true /\
   fee <> 0 /\ ceil_div (in_acc_sum T ins) (p_burn p) <= fee /\
   (forall i, In i ins -> ~ In (i_addr i) (locked_addrs d)) /\
   (forall o, In o outs -> o_coins o mod 10 ^ (6 - p_prec p) = 0)).
Proof. exact soft_iff. Qed.
Print Assumptions C11_soft_iff.

(* which rule is reported: the model never panics on validated parameters and
   the error it returns is the first failing rule in the documented order
   (size, [hours computable], outputs <= inputs, fee non-zero, fee sufficient,
   locked, precision) *)
Theorem C11_soft_first_error : forall sz serr T ins outs d p,
  Forall wf_in ins -> Forall wf_out outs -> in_u 64 T -> valid_params p -> valid_dist d ->
  exists e, verifyTxnSoftConstraints (sz, serr) T ins outs d p = Val e /\
            classify e = soft_spec (is_err serr) sz T ins outs d p.
Proof. exact soft_spec_correct. Qed.
Print Assumptions C11_soft_first_error.

(* the required fee is the ceiling (least f with f * burn >= hours) *)
Theorem C11_required_fee_ceil : forall h b, in_u 64 h -> 1 <= b < 2 ^ 32 ->
  RequiredFee h b = Val (ceil_div h b).
Proof. exact RequiredFee_ceil. Qed.
Print Assumptions C11_required_fee_ceil.

Theorem C11_ceil_div_least : forall h b, 0 <= h -> 1 <= b ->
  h <= ceil_div h b * b /\ (forall f, h <= f * b -> ceil_div h b <= f).
Proof. exact ceil_div_least. Qed.
Print Assumptions C11_ceil_div_least.

(* decimal precision: the translated check is `amount mod 10^(6-prec) = 0` *)
Theorem C11_precision_check : forall prec amount, 0 <= prec <= 6 ->
  DropletPrecisionCheck prec amount =
    Val (if amount mod 10 ^ (6 - prec) =? 0 then None else Some "ErrInvalidDecimals"%string).
Proof. exact DropletPrecisionCheck_spec. Qed.
Print Assumptions C11_precision_check.

(* locked inputs: membership of an input's address in the locked list *)
Theorem C11_locked_iff : forall d ins, valid_dist d ->
  TransactionIsLocked d ins = Val (spends_locked d ins) /\
  (spends_locked d ins = true <-> exists i, In i ins /\ In (i_addr i) (locked_addrs d)).
Proof. exact (fun d ins H => conj (TransactionIsLocked_spec d ins H) (spends_locked_iff d ins)). Qed.
Print Assumptions C11_locked_iff.

(* soft / hard are never crossed: every error of the soft checker is tagged
   soft, every error of the two hard checkers is tagged hard *)
Theorem C11_soft_checker_tags_soft : forall size T ins outs d p v,
  VerifySingleTxnSoftConstraints size T ins outs d p = Val v ->
  verdict_class v = None \/ verdict_class v = Some Soft.
Proof. exact soft_checker_tags_soft. Qed.
Print Assumptions C11_soft_checker_tags_soft.

Theorem C11_hard_checkers_tag_hard : forall pre T ins outs v,
  (Hours.VerifySingleTxnHardConstraints pre T ins outs = Val v \/
   Hours.VerifyBlockTxnConstraints pre T ins outs = Val v) ->
  verdict_class v = None \/ verdict_class v = Some Hard.
Proof. exact hard_checkers_tag_hard. Qed.
Print Assumptions C11_hard_checkers_tag_hard.

(* and no hard reason is reported as soft: once the hard rules passed (the
   node checks them first), the soft checker fails only for one of the five
   documented soft reasons (size, no fee, insufficient fee, locked, precision) *)
Theorem C11_soft_after_hard_documented : forall pre sz serr T ins outs d p,
  Forall wf_in ins -> Forall wf_out outs -> in_u 64 T -> valid_params p -> valid_dist d ->
  Hours.VerifySingleTxnHardConstraints pre T ins outs = Val None ->
  exists e, verifyTxnSoftConstraints (sz, serr) T ins outs d p = Val e /\
            (e = None \/ documented_soft (classify e) = true).
Proof. exact soft_after_hard_documented. Qed.
Print Assumptions C11_soft_after_hard_documented.

(* ---- the model IS the code: the hand-written fee functions of Model/Soft.v and
   the loops of Model/Hours.v they call are equal, for ALL inputs, to the Gallina
   regenerated from src/util/fee/fee.go and src/coin on every run
   (Gen/FeeTxn.v, Gen/CoinLoops.v), applied to the fields the Go code reads
   (tx.Out -> Hours; inUxs -> (Head.Time, Body.Coins, Body.Hours)). A change of
   meaning in fee.TransactionFee, fee.VerifyTransactionFee, UxArray.CoinHours or
   Transaction.OutputHours breaks a proof obligation here. *)
Theorem C11_TransactionFee_is_translated : forall T ins outs,
  Soft.TransactionFee T ins outs = FeeTxn.TransactionFee (outs_hours outs) T (ins_proj ins).
Proof. exact TransactionFee_refines. Qed.
Print Assumptions C11_TransactionFee_is_translated.

Theorem C11_VerifyTransactionFee_is_translated : forall outs f burn,
  Soft.VerifyTransactionFee outs f burn = FeeTxn.VerifyTransactionFee (outs_hours outs) f burn.
Proof. exact VerifyTransactionFee_refines. Qed.
Print Assumptions C11_VerifyTransactionFee_is_translated.

Theorem C11_UxArray_CoinHours_is_translated : forall T ins,
  Hours.UxArray_CoinHours T ins = CoinLoops.UxArray_CoinHours (ins_proj ins) T.
Proof. exact UxArray_CoinHours_refines. Qed.
Print Assumptions C11_UxArray_CoinHours_is_translated.

Theorem C11_OutputHours_is_translated : forall outs,
  Hours.Transaction_OutputHours outs = CoinLoops.Transaction_OutputHours (outs_hours outs).
Proof. exact OutputHours_refines. Qed.
Print Assumptions C11_OutputHours_is_translated.

(* non-vacuity: burn factor 10, 2 coins for 1000 hours -> 2007 input hours,
   required fee ceil(2007/10) = 201: outputs of 1806 hours pass, 1807 fail;
   a locked input, a 4th decimal at precision 3 and an oversize are reported *)
Example C11_example :
  let p := mkP 10 32768 3 in
  let d := mkD [5; 6; 7] 1 in
  let i := mkIn 100 2000000 7 0 in
  verifyTxnSoftConstraints (200, None) 3600100 [i] [mkOut 2000000 1806] d p = Val None /\
  verifyTxnSoftConstraints (200, None) 3600100 [i] [mkOut 2000000 1807] d p = Val (Some "ErrTxnInsufficientFee"%string) /\
  verifyTxnSoftConstraints (200, None) 3600100 [i] [mkOut 2000000 2007] d p = Val (Some "ErrTxnNoFee"%string) /\
  verifyTxnSoftConstraints (200, None) 3600100 [mkIn 100 2000000 7 6] [mkOut 2000000 1806] d p = Val (Some "ErrTxnIsLocked"%string) /\
  verifyTxnSoftConstraints (200, None) 3600100 [mkIn 100 2000000 7 5] [mkOut 2000000 1806] d p = Val None /\
  verifyTxnSoftConstraints (200, None) 3600100 [i] [mkOut 1999900 1806; mkOut 100 0] d p = Val (Some "ErrInvalidDecimals"%string) /\
  verifyTxnSoftConstraints (32769, None) 3600100 [i] [mkOut 2000000 1806] d p = Val (Some "ErrTxnExceedsMaxBlockSize"%string) /\
  valid_params p /\ valid_dist d.
Proof. cbv zeta. repeat split; vm_compute; try reflexivity; intuition discriminate. Qed.
Print Assumptions C11_example.
