(* C06 — The unconfirmed pool only holds admissible transactions and tracks the chain.
   Statements only; proofs in Proofs/PoolProofs.v, model in Model/Pool.v
   (state = unspent set + pool in bucket order; step = InjectForeign | InjectUser
   | ExecBlock | Refresh | RemoveInvalid; hard_ok U t v = inputs of t are in U
   and the remaining hard rules hold (v_wf)). All statements are for every state
   with a key-ordered pool / every history from the empty pool. *)
From Coq Require Import Sorting.Sorted.
From Sky Require Import Base.Uint Model.Pool Proofs.PoolProofs.
Open Scope Z_scope.

(* re-submitting a known transaction does not duplicate it: after ANY history
   the pool keys are strictly increasing, hence pairwise distinct *)
Theorem C06_pool_keys_sorted : forall U ops,
  StronglySorted Z.lt (keys (pool (run (init U) ops))).
Proof. exact pool_keys_sorted_l. Qed.
Print Assumptions C06_pool_keys_sorted.

Theorem C06_pool_keys_nodup : forall U ops, NoDup (keys (pool (run (init U) ops))).
Proof. exact pool_keys_nodup_l. Qed.
Print Assumptions C06_pool_keys_nodup.

(* ... and the key list is unchanged by the re-submission, which is reported as known *)
Theorem C06_inject_known : forall s t v,
  StronglySorted Z.lt (keys (pool s)) -> In (tid t) (keys (pool s)) ->
  keys (pool (fst (step s (InjectForeign t v)))) = keys (pool s) /\
  (hard_ok (unspent s) t v = true -> exists c, snd (step s (InjectForeign t v)) = OInject true c).
Proof. exact inject_known_l. Qed.
Print Assumptions C06_inject_known.

Theorem C06_inject_user_known : forall s ep t u v,
  StronglySorted Z.lt (keys (pool s)) -> In (tid t) (keys (pool s)) ->
  keys (pool (fst (step s (InjectUser ep t u v)))) = keys (pool s).
Proof. exact inject_user_known_l. Qed.
Print Assumptions C06_inject_user_known.

(* a transaction enters the pool only if it satisfies the hard rules against
   the current head; its flag is the soft verdict *)
Theorem C06_inject_foreign_admits : forall s t v u g,
  StronglySorted Z.lt (keys (pool s)) ->
  In (u, g) (pool (fst (step s (InjectForeign t v)))) -> ~ In (tid u) (keys (pool s)) ->
  u = t /\ hard_ok (unspent s) t v = true /\ g = v_soft v.
Proof. exact inject_foreign_admits_l. Qed.
Print Assumptions C06_inject_foreign_admits.

(* user submissions must also satisfy the soft and user rules — through EITHER entry
   point (ep: Visor.InjectUserTransaction, or Visor.InjectUserTransactionTx inside
   WithUpdateTx as daemon.InjectBroadcastTransaction does) *)
Theorem C06_inject_user_admits : forall s ep t uo v u g,
  StronglySorted Z.lt (keys (pool s)) ->
  In (u, g) (pool (fst (step s (InjectUser ep t uo v)))) -> ~ In (tid u) (keys (pool s)) ->
  u = t /\ uo = true /\ hard_ok (unspent s) t v = true /\ v_soft v = true /\ g = true.
Proof. exact inject_user_admits_l. Qed.
Print Assumptions C06_inject_user_admits.

(* a rejected submission leaves the node's state as it was *)
Theorem C06_inject_rejected : forall s o,
  match o with
  | InjectForeign t v => hard_ok (unspent s) t v = false
  | InjectUser ep t u v => u && hard_ok (unspent s) t v && v_soft v = false
  | _ => False
  end -> fst (step s o) = s.
Proof. exact inject_rejected_l. Qed.
Print Assumptions C06_inject_rejected.

(* every transaction the pool holds after ANY history was admitted by an
   injection at whose head it satisfied the hard rules (user injection: and the
   soft rules) *)
Theorem C06_pool_entries_were_admitted : forall U ops t,
  In t (map fst (pool (run (init U) ops))) ->
  exists ops1 o ops2 v, ops = ops1 ++ o :: ops2 /\
    (o = InjectForeign t v \/ (exists ep, o = InjectUser ep t true v /\ v_soft v = true)) /\
    hard_ok (unspent (run (init U) ops1)) t v = true.
Proof. exact pool_entries_were_admitted_l. Qed.
Print Assumptions C06_pool_entries_were_admitted.

(* a transaction leaves the pool once a block containing it is accepted; no
   other transaction leaves; a rejected block changes nothing *)
Theorem C06_exec_block_removes : forall s h txs s',
  step s (ExecBlock h txs) = (s', OBlock true) ->
  (forall tv, In tv txs -> ~ In (tid (fst tv)) (keys (pool s'))) /\
  (forall e, In e (pool s') <-> In e (pool s) /\ ~ In (key e) (map (fun tv => tid (fst tv)) txs)).
Proof. exact exec_block_removes_l. Qed.
Print Assumptions C06_exec_block_removes.

Theorem C06_exec_block_rejected : forall s h txs s',
  step s (ExecBlock h txs) = (s', OBlock false) -> s' = s.
Proof. exact exec_block_rejected_l. Qed.
Print Assumptions C06_exec_block_rejected.

(* after invalid-removal runs, no pooled transaction violates a hard rule at the
   head; exactly the violating ones were removed and reported *)
Theorem C06_remove_invalid_sound : forall s vs s' l,
  step s (RemoveInvalid vs) = (s', OHashes l) ->
  unspent s' = unspent s /\
  (forall e, In e (pool s') -> exists v, lookup (key e) vs = Some v /\ hard_ok (unspent s') (fst e) v = true) /\
  (forall e, In e (pool s) -> In e (pool s') \/ (hard_now (unspent s) vs e = false /\ In (key e) l)) /\
  (forall e, In e (pool s') -> In e (pool s)).
Proof. exact remove_invalid_sound_l. Qed.
Print Assumptions C06_remove_invalid_sound.

(* after a refresh the pool holds the same transactions and every validity flag
   equals a fresh re-check (hard and soft) against the current chain; the
   returned hashes are those that turned valid *)
Theorem C06_refresh_flags : forall s vs s' l,
  step s (Refresh vs) = (s', OHashes l) ->
  unspent s' = unspent s /\ map fst (pool s') = map fst (pool s) /\
  (forall e, In e (pool s') -> snd e = recheck (unspent s') vs e) /\
  l = map key (filter (fun e => negb (snd e) && recheck (unspent s) vs e) (pool s)).
Proof. exact refresh_flags_l. Qed.
Print Assumptions C06_refresh_flags.

(* the model's steps satisfy the decidable property step_prop, the predicate
   the check evaluates after every operation on the node's own answers and pool
   (proj = the (hash, flag) view of the pool; `agrees` = the node's "inputs
   unspent" answers equal the model's computation and the verdict lists cover
   the pool) *)
Theorem C06_model_meets_step_prop : forall s o,
  StronglySorted Z.lt (keys (pool s)) -> agrees s o ->
  step_prop (proj (pool s)) (mkO o (snd (step s o)) (proj (pool (fst (step s o))))) = true.
Proof. exact model_meets_step_prop_l. Qed.
Print Assumptions C06_model_meets_step_prop.

(* non-vacuity: A and its double spend A' are pooled, B is soft-flagged; a block
   with A' is accepted: A' leaves, A stays but its input is gone; Refresh flags
   A invalid, RemoveInvalid removes it; B turns valid when its soft verdict does *)
Example C06_example :
  let A  := mkT 10 [1] [11] in
  let A' := mkT 20 [1; 2] [12] in
  let B  := mkT 30 [3] [13] in
  let ok := mkV true true true true in
  let softbad := mkV true true false true in
  let gone := mkV true true true false in
  let ops := [InjectForeign A ok; InjectForeign A' ok; InjectForeign B softbad; InjectForeign A ok;
              ExecBlock true [(A', ok)];
              Refresh [(10, gone); (30, ok)];
              RemoveInvalid [(10, gone); (30, ok)]] in
  let s4 := run (init [1; 2; 3]) (firstn 4 ops) in
  let s5 := run (init [1; 2; 3]) (firstn 5 ops) in
  let s6 := run (init [1; 2; 3]) (firstn 6 ops) in
  let s7 := run (init [1; 2; 3]) ops in
  map (fun e => (key e, snd e)) (pool s4) = [(10, true); (20, true); (30, false)] /\
  snd (step (run (init [1; 2; 3]) (firstn 3 ops)) (InjectForeign A ok)) = OInject true IOk /\
  map (fun e => (key e, snd e)) (pool s5) = [(10, true); (30, false)] /\ unspent s5 = [3; 12] /\
  map (fun e => (key e, snd e)) (pool s6) = [(10, false); (30, true)] /\
  snd (step s5 (Refresh [(10, gone); (30, ok)])) = OHashes [30] /\
  map (fun e => (key e, snd e)) (pool s7) = [(30, true)] /\
  snd (step s6 (RemoveInvalid [(10, gone); (30, ok)])) = OHashes [10].
Proof. vm_compute. repeat split; reflexivity. Qed.
