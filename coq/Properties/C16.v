(* C16 — BIP32 / BIP39 / BIP44 derivation matches the standards.  Statements only.

   Model/Bip.v is the standards written as executable Gallina (bit packing of
   BIP39, CKDpriv / CKDpub / master key / serialisation / path grammar of BIP32,
   path shape of BIP44) and is compared with src/cipher/bip39, bip32, bip44 on
   every run (harness/c16, runner/c16_driver.ml); the published test vectors are
   replayed through the model as well.

   PARTIAL by design (DESIGN.md 6.16): the hash functions are oracles — Section
   variables `sha256`, `hmac_sha512`, `hash160` about which the theorems assume
   only that they return byte strings (of the right length); they are answered
   by Python's hashlib during the correspondence.  `ckd_commute` additionally
   has the group-law premises of C14 (prime p, prime n, padd_associative,
   sqrt_correct). *)
From Coq Require Import ZArith List Bool Znumtheory String.
From Sky Require Import Model.Secp Model.Bip Model.BipWords Gen.Bip32Consts
  Proofs.SecpProofs Proofs.Bip39Proofs Proofs.BipTextProofs Proofs.BipWordsProofs Proofs.BipMnemonic
  Proofs.Bip32Group Proofs.Bip32SerProofs Proofs.BipConsts.
Import ListNotations.
Open Scope Z_scope.

(* ---- the word list (regenerated from wordlists/english.go): 2048 distinct lower-case words *)
Theorem C16_wordlist_length : List.length english_words = 2048%nat.
Proof. exact wordlist_length. Qed.
Print Assumptions C16_wordlist_length.

Theorem C16_wordlist_nodup : NoDup english_words.
Proof. exact wordlist_nodup. Qed.
Print Assumptions C16_wordlist_nodup.

Theorem C16_wordlist_word_shape : forall w, In w english_words -> w <> [] /\ Forall (fun b => 97 <= b <= 122) w.
Proof. exact wordlist_word_shape. Qed.
Print Assumptions C16_wordlist_word_shape.

(* ---- constants of bip32.go as regenerated: hardened threshold 2^31, version bytes *)
Theorem C16_consts_match_go :
  hardened = go_bip32_FirstHardenedChild /\ hardened = 2 ^ 31 /\
  xprv_version = go_bip32_PrivateWalletVersion /\ xpub_version = go_bip32_PublicWalletVersion.
Proof. exact bip_consts_match_go. Qed.
Print Assumptions C16_consts_match_go.

(* ---- BIP39: entropy -> 11-bit indices -> entropy *)
Theorem C16_mnemonic_indices_roundtrip : forall sha256, (forall x, all_bytes (sha256 x) = true) ->
  forall e idx, all_bytes e = true ->
  indices_of_entropy sha256 e = inr idx -> entropy_of_indices sha256 idx = inr e.
Proof. exact mnemonic_indices_roundtrip. Qed.
Print Assumptions C16_mnemonic_indices_roundtrip.

(* a list of word indices validates iff it is entropy || first ENT/32 bits of SHA-256(entropy) *)
Theorem C16_indices_valid_iff_checksum : forall sha256, (forall x, all_bytes (sha256 x) = true) ->
  forall idx e, Forall (fun d => 0 <= d < 2048) idx ->
  (entropy_of_indices sha256 idx = inr e <-> (all_bytes e = true /\ indices_of_entropy sha256 e = inr idx)).
Proof. exact indices_valid_iff_checksum. Qed.
Print Assumptions C16_indices_valid_iff_checksum.

(* sentence level: NewMnemonic then EntropyFromMnemonic is the identity *)
Theorem C16_mnemonic_roundtrip : forall sha256, (forall x, all_bytes (sha256 x) = true) ->
  forall e s, all_bytes e = true ->
  new_mnemonic sha256 english_words e = inr s ->
  entropy_from_mnemonic sha256 english_words s = inr e.
Proof. exact mnemonic_roundtrip. Qed.
Print Assumptions C16_mnemonic_roundtrip.

(* a mnemonic validates iff it is well formed (no surrounding white space, single
   spaces, 12/15/18/21/24 known words) and its checksum is correct *)
Theorem C16_validate_iff_checksum : forall sha256, (forall x, all_bytes (sha256 x) = true) ->
  forall s,
  validate_mnemonic sha256 english_words s = None <->
  exists idx e, split_mnemonic english_words s = inr idx /\ all_bytes e = true /\
                indices_of_entropy sha256 e = inr idx.
Proof. exact validate_iff_checksum. Qed.
Print Assumptions C16_validate_iff_checksum.

(* ---- BIP32 serialisation: 78 bytes + 4 checksum bytes *)
Theorem C16_xkey_roundtrip : forall sha256, (forall x, List.length (sha256 x) = 32%nat) ->
  forall k, xkey_wf k = true -> deserialize sha256 (x_private k) (serialize sha256 k) = inr k.
Proof. exact xkey_roundtrip. Qed.
Print Assumptions C16_xkey_roundtrip.

Theorem C16_serialize_length : forall sha256, (forall x, List.length (sha256 x) = 32%nat) ->
  forall k, xkey_wf k = true -> List.length (serialize sha256 k) = 82%nat.
Proof. exact serialize_length. Qed.
Print Assumptions C16_serialize_length.

(* deserialize_iff, left to right: what is accepted is the canonical serialisation of a well-formed key *)
Theorem C16_deserialize_sound : forall sha256 w data k, all_bytes data = true -> deserialize sha256 w data = inr k ->
  x_private k = w /\ xkey_wf k = true /\ serialize sha256 k = data.
Proof. exact deserialize_sound. Qed.
Print Assumptions C16_deserialize_sound.

Theorem C16_deserialize_wrong_kind : forall sha256, (forall x, List.length (sha256 x) = 32%nat) ->
  forall k, xkey_wf k = true ->
  deserialize sha256 (negb (x_private k)) (serialize sha256 k)
  = inl (if x_private k then ErrInvalidPublicKeyVersion else ErrInvalidPrivateKeyVersion).
Proof. exact deserialize_wrong_kind. Qed.
Print Assumptions C16_deserialize_wrong_kind.

(* ---- BIP32 paths *)
Theorem C16_path_roundtrip : forall vs,
  Forall (fun v => 0 <= v < 4294967296) vs -> parse_path (print_path vs) = inr vs.
Proof. exact path_roundtrip. Qed.
Print Assumptions C16_path_roundtrip.

(* ---- derivation *)
Theorem C16_hardened_pub_fails : forall hmac_sha512 hash160 k i,
  x_private k = false -> x_depth k <> 255 -> hardened <= i ->
  ckd_pub hmac_sha512 hash160 k i = inl ErrHardenedChildPublicKey.
Proof. exact hardened_pub_fails. Qed.
Print Assumptions C16_hardened_pub_fails.

Theorem C16_bip44_path_shape : forall hmac_sha512 hash160 seed coin account c a x ch,
  bip44_coin hmac_sha512 hash160 seed coin = inr c ->
  bip44_account hmac_sha512 hash160 c account = inr a ->
  (ch = 0 \/ ch = 1) ->
  (if ch =? 0 then bip44_external hmac_sha512 hash160 a else bip44_change hmac_sha512 hash160 a) = inr x ->
  coin < hardened /\ account < hardened /\
  exists m, master_key hmac_sha512 seed = inr m /\
    derive hmac_sha512 hash160 m (firstn 4 (bip44_path coin account ch 0)) = inr x.
Proof. exact bip44_path_shape. Qed.
Print Assumptions C16_bip44_path_shape.

(* N(CKDpriv(k, i)) = CKDpub(N(k), i) for non-hardened i, error cases included *)
Theorem C16_ckd_commute : forall hmac_sha512 hash160,
  (forall key data, all_bytes (hmac_sha512 key data) = true) ->
  prime p -> prime n -> padd_associative -> sqrt_correct ->
  forall k i pk,
  x_private k = true -> seckey_valid (be_val (x_key k)) = true ->
  0 <= i < hardened ->
  neuter k = Some pk ->
  neuter_res (ckd_priv hmac_sha512 hash160 k i) = Some (ckd_pub hmac_sha512 hash160 pk i).
Proof. exact ckd_commute. Qed.
Print Assumptions C16_ckd_commute.

(* ---- non-vacuity: the 12-word sentence of the all-zero entropy is well formed *)
Example C16_example :
  split_mnemonic english_words
    (join 32 (repeat (bytes_of_string "abandon"%string) 11 ++ [bytes_of_string "about"%string]))
  = inr (repeat 0 11 ++ [3]).
Proof. exact example_sentence. Qed.
Print Assumptions C16_example.
