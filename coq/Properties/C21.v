(* C21 — Generated binary codecs are equivalent to the reference encoder.
   Generic theorems over the schema universe (Model/Codec.v), instantiated on
   the 29 schemas regenerated from /repo's struct definitions (Gen/Schemas.v). *)
From Coq Require Import ZArith List Bool String.
From Sky Require Import Model.Codec Gen.Schemas Proofs.CodecProofs.
Import ListNotations.
Open Scope Z_scope.

(* every regenerated schema is well formed (slice elements occupy >= 1 byte:
   the hypothesis the round-trip proof forces, see DESIGN 6.21) *)
Theorem C21_schemas_wf : forallb (fun p => wf_msg (snd p)) all_schemas = true.
Proof. vm_compute. reflexivity. Qed.
Print Assumptions C21_schemas_wf.

(* the schema recovered from the CODE of every generated encoder (field order,
   widths, array sizes, maxlen constants, omitempty) equals the schema derived
   from the struct definition, modulo in-place flattening of nested structs *)
Fixpoint code_vs_struct (a b : list (string * msg_schema)) : bool :=
  match a, b with
  | [], [] => true
  | x :: a', y :: b' => String.eqb (fst x) (fst y) && msg_flat_eqb (snd x) (snd y) && code_vs_struct a' b'
  | _, _ => false
  end.
Theorem C21_generated_code_matches_structs : code_vs_struct code_schemas all_schemas = true.
Proof. vm_compute. reflexivity. Qed.
Print Assumptions C21_generated_code_matches_structs.

(* likewise for the CODE of every generated decoder: the sequence of reads, the
   array sizes, every `length > N` maxlen test (operator and constant), the
   underflow test standing before it, the omitempty shortcut *)
Theorem C21_generated_decoders_match_structs : code_vs_struct dcode_schemas all_schemas = true.
Proof. vm_compute. reflexivity. Qed.
Print Assumptions C21_generated_decoders_match_structs.

(* decode (encode v) = v, for every schema, every value, any trailing bytes *)
Theorem C21_decode_encode : forall s, wfb s = true ->
  forall v bs rest, encode s v = COk bs -> decode s (bs ++ rest) = COk (v, rest).
Proof. exact decode_encode. Qed.
Print Assumptions C21_decode_encode.

(* ... and for top-level objects (with an optional omitempty tail), exactly *)
Theorem C21_msg_roundtrip : forall m v bs, wf_msg m = true ->
  encode_msg m v = COk bs -> decode_msg_exact m bs = COk v.
Proof. exact msg_roundtrip. Qed.
Print Assumptions C21_msg_roundtrip.

(* the size function is the length of the encoding *)
Theorem C21_size_encode : forall m v bs, encode_msg m v = COk bs -> Z.of_nat (List.length bs) = csize_msg m v.
Proof. exact size_encode_msg. Qed.
Print Assumptions C21_size_encode.

(* canonical decoding: whatever decodes re-encodes to the bytes consumed *)
Theorem C21_decode_canonical : forall s, wfb s = true ->
  forall bs v rest, bytes_ok bs = true -> decode s bs = COk (v, rest) ->
  exists pre, bs = pre ++ rest /\ encode s v = COk pre.
Proof. exact decode_canonical. Qed.
Print Assumptions C21_decode_canonical.

Theorem C21_msg_canonical : forall m bs v, wf_msg m = true -> m_omit m = None -> bytes_ok bs = true ->
  decode_msg_exact m bs = COk v -> encode_msg m v = COk bs.
Proof. exact msg_canonical. Qed.
Print Assumptions C21_msg_canonical.

(* with an omitempty tail the ONLY non-canonical encodings spell the empty tail
   as an explicit zero count (partial form of canonicity for such schemas) *)
Theorem C21_msg_canonical_omit_partial : forall m mx s bs v, wf_msg m = true -> m_omit m = Some (mx, s) ->
  bytes_ok bs = true -> decode_msg_exact m bs = COk v ->
  encode_msg m v = COk bs \/ (exists a, bs = a ++ [0; 0; 0; 0] /\ encode_msg m v = COk a).
Proof. exact msg_canonical_omit. Qed.
Print Assumptions C21_msg_canonical_omit_partial.

(* the full canonicity statement is FALSE for the one schema with omitempty
   (daemon.IntroductionMessage): finding F11 *)
Theorem C21_canonical_refuted_IntroductionMessage :
  exists bs v, bytes_ok bs = true /\
    decode_msg_exact schema_daemon_IntroductionMessage bs = COk v /\
    encode_msg schema_daemon_IntroductionMessage v <> COk bs.
Proof.
  exists [1; 0; 0; 0; 2; 0; 3; 0; 0; 0; 0; 0; 0; 0], (VList [VInt 1; VInt 2; VInt 3; VList []]).
  split; [reflexivity|]. split; [vm_compute; reflexivity|]. vm_compute. discriminate.
Qed.
Print Assumptions C21_canonical_refuted_IntroductionMessage.

(* every schema other than that one has no omitempty, so is fully canonical *)
Theorem C21_only_intro_has_omit :
  forallb (fun p => match m_omit (snd p) with None => true | Some _ => String.eqb (fst p) "daemon.IntroductionMessage" end) all_schemas = true.
Proof. vm_compute. reflexivity. Qed.
Print Assumptions C21_only_intro_has_omit.

(* maximum-length enforcement, both directions *)
Theorem C21_maxlen_enc : forall m s vs, 0 < m -> m < Z.of_nat (List.length vs) ->
  encode (SSlice m s) (VList vs) = CErr EMaxLen.
Proof. exact maxlen_enforced_enc. Qed.
Print Assumptions C21_maxlen_enc.

Theorem C21_maxlen_dec : forall m s bs v rest, 0 < m -> bytes_ok bs = true ->
  decode (SSlice m s) bs = COk (v, rest) -> exists vs, v = VList vs /\ Z.of_nat (List.length vs) <= m.
Proof. exact maxlen_enforced_dec. Qed.
Print Assumptions C21_maxlen_dec.

(* non-vacuity: a concrete transaction-shaped value round-trips *)
Example C21_example :
  let v := VList [VInt 37; VInt 0; VList (repeat (VInt 7) 32); VList []; VList [VList (repeat (VInt 1) 32)]; VList []] in
  exists bs, encode_msg schema_coin_Transaction v = COk bs /\ List.length bs = 81%nat /\
             decode_msg_exact schema_coin_Transaction bs = COk v.
Proof. eexists. split; [vm_compute; reflexivity|]. split; vm_compute; reflexivity. Qed.
Print Assumptions C21_example.
