(* C17 — Wallet address derivation is deterministic and consistent.
   Statements only. Model: Model/Wallets.v (hand-written; tied to the code by the
   correspondence run of every check). `step` (cipher.DeterministicKeyPairIterator),
   `child` (BIP32 child derivation) and the key/address functions are arbitrary
   functions: the theorems hold for every choice. *)
From Coq Require Import List Arith.
From Sky Require Import Model.Wallets Proofs.WalletsProofs.
Import ListNotations.

(* deterministic wallet: after ANY sequence of generate / scan / save+reload the
   entries are the first d_count keys of the seed's chain (d_count = the number
   the documented meaning of the operations gives), the seed is unchanged and
   lastSeed is the chain's seed at that position *)
Theorem C17_batch_independent :
  forall (S K : Type) (step : S -> S * K) (s : S) (ops : list (dop K)),
    let w := d_run S K step ops (d_init S K s) in
    d_entries w = derive_all S K step s (d_count S K step s ops)
    /\ d_seed w = s
    /\ (0 < d_count S K step s ops -> d_last w = seed_after S K step s (d_count S K step s ops)).
Proof. exact batch_independent. Qed.
Print Assumptions C17_batch_independent.

Theorem C17_batches_equal_single_shot :
  forall (S K : Type) (step : S -> S * K) (s : S) (ns : list nat),
    d_entries (d_run S K step (map (@DGen K) ns) (d_init S K s)) = derive_all S K step s (fold_right plus 0 ns).
Proof. exact batches_equal_single_shot. Qed.
Print Assumptions C17_batches_equal_single_shot.

(* ScanAddresses keeps the scanned addresses exactly up to the last active one *)
Theorem C17_scan_keeps_prefix :
  forall (S K : Type) (step : S -> S * K) (s : S) (ops : list (dop K)) (n : nat) (act : K -> bool),
    let w := d_run S K step ops (d_init S K s) in
    let m := length (d_entries w) in
    let scanned := skipn m (derive_all S K step s (m + n)) in
    let k := keep_num (map act scanned) in
    d_entries (d_scan S K step n act w) = derive_all S K step s (m + k)
    /\ k <= n
    /\ (0 < k -> exists key, nth_error scanned (k - 1) = Some key /\ act key = true)
    /\ (forall i key, k <= i -> nth_error scanned i = Some key -> act key = false).
Proof. exact scan_keeps_prefix. Qed.
Print Assumptions C17_scan_keeps_prefix.

Theorem C17_reload_same :
  forall (S K : Type) (step : S -> S * K) (ops1 ops2 : list (dop K)) (w : dwallet S K),
    d_run S K step (ops1 ++ DSaveReload :: ops2) w = d_run S K step (ops1 ++ ops2) w.
Proof. exact reload_same. Qed.
Print Assumptions C17_reload_same.

(* a failed operation (and locking, unlocking, reloading) leaves the derivation
   state unchanged: any history gives the wallet of its effective operations alone,
   to which C17_batch_independent applies *)
Theorem C17_inert_ops_same :
  forall (S K : Type) (step : S -> S * K) (ops : list (dop K)) (w : dwallet S K),
    d_run S K step (filter d_effective ops) w = d_run S K step ops w.
Proof. exact inert_ops_same. Qed.
Print Assumptions C17_inert_ops_same.

Theorem C17_inert_ops_same_idx :
  forall (K : Type) (child : nat -> nat -> K) (ops : list (iop K)) (w : iwallet K),
    i_run K child (filter i_effective ops) w = i_run K child ops w.
Proof. exact inert_ops_same_idx. Qed.
Print Assumptions C17_inert_ops_same_idx.

Theorem C17_new_wallet_prefix :
  forall (S K : Type) (step : S -> S * K) (s : S) (gen_n scan_n : nat) (act : K -> bool),
    exists total, d_entries (d_new S K step s gen_n scan_n act) = derive_all S K step s total /\ gen_n <= total.
Proof. exact new_wallet_prefix. Qed.
Print Assumptions C17_new_wallet_prefix.

(* bip44 chains and xpub wallets: every chain is the single-shot derivation of its
   own length after ANY sequence of operations *)
Theorem C17_batch_independent_idx :
  forall (K : Type) (child : nat -> nat -> K) (ops : list (iop K)) (w : iwallet K),
    chains_ok K child w -> chains_ok K child (i_run K child ops w).
Proof. exact batch_independent_idx. Qed.
Print Assumptions C17_batch_independent_idx.

Theorem C17_scan_keeps_prefix_idx :
  forall (K : Type) (child : nat -> nat -> K) (c : list K) (r : iwallet K) (j n : nat) (act : K -> bool),
    c = new_entries K child j 0 (length c) ->
    let scanned := new_entries K child j (length c) n in
    let k := keep_num (map act scanned) in
    hd_error (i_scan_from K child j n act (c :: r)) = Some (new_entries K child j 0 (length c + k))
    /\ k <= n
    /\ (0 < k -> exists key, nth_error scanned (k - 1) = Some key /\ act key = true)
    /\ (forall i key, k <= i -> nth_error scanned i = Some key -> act key = false).
Proof. exact scan_keeps_prefix_idx. Qed.
Print Assumptions C17_scan_keeps_prefix_idx.

Theorem C17_reload_same_idx :
  forall (K : Type) (child : nat -> nat -> K) (ops1 ops2 : list (iop K)) (w : iwallet K),
    i_run K child (ops1 ++ ISaveReload :: ops2) w = i_run K child (ops1 ++ ops2) w.
Proof. exact reload_same_idx. Qed.
Print Assumptions C17_reload_same_idx.

Theorem C17_lock_unlock_same_idx :
  forall (K : Type) (child : nat -> nat -> K) (ops1 ops2 ops3 : list (iop K)) (w : iwallet K),
    i_run K child (ops1 ++ ILock :: ops2 ++ IUnlock :: ops3) w = i_run K child (ops1 ++ ops2 ++ ops3) w.
Proof. exact lock_unlock_same_idx. Qed.
Print Assumptions C17_lock_unlock_same_idx.

(* coin type: the wallet's coin (address text form, bip44 coin number) is part of
   the wallet and survives every operation, save + reload included *)
Theorem C17_batch_independent_coin :
  forall (K : Type) (child : coin -> nat -> nat -> K) (ops : list (iop K)) (w : cwallet K),
    chains_ok K (child (cw_coin w)) (cw_chains w) ->
    cw_coin (cw_run K child ops w) = cw_coin w
    /\ chains_ok K (child (cw_coin w)) (cw_chains (cw_run K child ops w)).
Proof. exact batch_independent_coin. Qed.
Print Assumptions C17_batch_independent_coin.

Theorem C17_reload_same_coin :
  forall (K : Type) (child : coin -> nat -> nat -> K) (ops1 ops2 : list (iop K)) (w : cwallet K),
    cw_run K child (ops1 ++ ISaveReload :: ops2) w = cw_run K child (ops1 ++ ops2) w.
Proof. exact reload_same_coin. Qed.
Print Assumptions C17_reload_same_coin.

Theorem C17_batch_independent_det_coin :
  forall (S Sec K : Type) (step : S -> S * Sec) (key_of : coin -> Sec -> K) (c : coin) (s : S) (ops : list (dop Sec)),
    let w := cd_run S Sec step ops {| cd_coin := c; cd_w := d_init S Sec s |} in
    cd_coin w = c
    /\ cd_entries S Sec K key_of w = map (key_of c) (derive_all S Sec step s (d_count S Sec step s ops)).
Proof. exact batch_independent_det_coin. Qed.
Print Assumptions C17_batch_independent_det_coin.

Theorem C17_reload_same_det_coin :
  forall (S Sec : Type) (step : S -> S * Sec) (ops1 ops2 : list (dop Sec)) (w : cdwallet S Sec),
    cd_run S Sec step (ops1 ++ DSaveReload :: ops2) w = cd_run S Sec step (ops1 ++ ops2) w.
Proof. exact reload_same_det_coin. Qed.
Print Assumptions C17_reload_same_det_coin.

(* every entry's address is the address of its public key, and its public key is
   the one of its secret key where one is held; for bip44 this needs the BIP32
   fact that public and private derivation commute (premise; subject of C16) *)
Theorem C17_entry_coherent_sec :
  forall (Sec Pub Addr : Type) (pub_of : Sec -> Pub) (addr_of : Pub -> Addr) (s : Sec),
    coherent Sec Pub Addr pub_of addr_of (entry_of_sec Sec Pub Addr pub_of addr_of s).
Proof. exact entry_coherent_sec. Qed.
Print Assumptions C17_entry_coherent_sec.

Theorem C17_entry_coherent_bip44 :
  forall (Sec Pub Addr : Type) (pub_of : Sec -> Pub) (addr_of : Pub -> Addr)
         (cpub : nat -> nat -> Pub) (csec : nat -> nat -> Sec),
    (forall j i, pub_of (csec j i) = cpub j i) ->
    forall b j i, coherent Sec Pub Addr pub_of addr_of (bip44_entry Sec Pub Addr addr_of cpub csec b j i).
Proof. exact entry_coherent_bip44. Qed.
Print Assumptions C17_entry_coherent_bip44.

Theorem C17_entry_coherent_xpub :
  forall (Sec Pub Addr : Type) (pub_of : Sec -> Pub) (addr_of : Pub -> Addr) (cpub : nat -> nat -> Pub) (j i : nat),
    coherent Sec Pub Addr pub_of addr_of (xpub_entry Sec Pub Addr addr_of cpub j i).
Proof. exact entry_coherent_xpub. Qed.
Print Assumptions C17_entry_coherent_xpub.

(* a watch-only wallet derives the same addresses as the corresponding seed wallet *)
Theorem C17_watch_same :
  forall (Sec Pub Addr : Type) (addr_of : Pub -> Addr) (cpub : nat -> nat -> Pub) (csec : nat -> nat -> Sec) (b : bool) (j i : nat),
    en_addr Sec Pub Addr (xpub_entry Sec Pub Addr addr_of cpub j i)
    = en_addr Sec Pub Addr (bip44_entry Sec Pub Addr addr_of cpub csec b j i)
    /\ en_pub Sec Pub Addr (xpub_entry Sec Pub Addr addr_of cpub j i)
       = en_pub Sec Pub Addr (bip44_entry Sec Pub Addr addr_of cpub csec b j i).
Proof. exact watch_same. Qed.
Print Assumptions C17_watch_same.

(* non-vacuity: on the chain 0,1,2,.. (key i = i) generating 2+3, scanning 4 ahead
   with activity at key 6, reloading and generating 1 gives keys 0..7 and seed 8 *)
Example C17_example :
  let step := fun i : nat => (Datatypes.S i, i) in
  let w := d_run nat nat step [DGen 2; DGen 3; DScan 4 (fun k => Nat.eqb k 6); DSaveReload; DGen 1] (d_init nat nat 0) in
  d_entries w = [0; 1; 2; 3; 4; 5; 6; 7] /\ d_last w = 8
  /\ i_run nat (fun j i => 10 * j + i) [IGen 0 2; IGen 1 1; IScan 3 (fun k => Nat.eqb k 3); IGen 0 1] [[]; []]
     = [[0; 1; 2; 3; 4]; [10]].
Proof. vm_compute. repeat split. Qed.
Print Assumptions C17_example.
