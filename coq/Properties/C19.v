(* C19 — The wallet service's memory and disk views never diverge.
   Statements only. Model: Model/WalletService.v (memory map, wallet directory,
   fingerprint map; operations = the Service API including the failing variants
   and "the directory is unavailable during the operation"). The model is
   compared with a real wallet.Service after every operation of random
   histories on every run (Corr/C19_corr.v).

   All theorems are for ALL operation lists from the empty service, under
   [wf_op] (address counts are not negative; created files are named *wlt, as
   the HTTP API always does). Interpretation (DESIGN 6.19): wallets removed by
   UnloadWallet are excepted like temporary ones. *)
From Coq Require Import List String Bool ZArith.
From Sky Require Import Base.Uint Model.WalletService Proofs.WalletServiceProofs.
Import ListNotations.
Open Scope Z_scope.

(* a fresh service on the directory loads, apart from the unloaded wallets,
   exactly the non-temporary wallets held in memory *)
Theorem mem_eq_disk : forall ops, forallb wf_op ops = true ->
  mem_eq_disk_b (run ops init) = true.
Proof. exact all_mem_eq_disk. Qed.
Print Assumptions mem_eq_disk.

(* the same, spelled out: the fresh service starts and loads the directory as it is *)
Theorem reload_total : forall ops, forallb wf_op ops = true ->
  reload (disk (run ops init)) = RLoaded (disk (run ops init)).
Proof. exact all_reload_total. Qed.
Print Assumptions reload_total.

(* a failed operation changes neither memory nor directory nor the fingerprint
   map — for every state, not only reachable ones *)
Theorem failed_op_noop : forall s o s' e, step s o = (s', Some e) -> s' = s.
Proof. exact step_failed_noop. Qed.
Print Assumptions failed_op_noop.

(* ViewSecrets, GetWalletSeed, GetWallet / View change nothing, whatever they return *)
Theorem read_only_op_noop : forall s o, is_read o = true -> fst (step s o) = s.
Proof. exact read_noop. Qed.
Print Assumptions read_only_op_noop.

(* no two wallets in memory share a fingerprint, and serv.fingerprints is
   exactly the set of fingerprints of the wallets in memory *)
Theorem fingerprints_unique : forall ops, forallb wf_op ops = true ->
  let s := run ops init in
  nodup_fps [] (mem s) = true /\
  forall f, has_fp f (fps s) = true <-> (f <> 0 /\ exists w, In w (mem s) /\ fp w = f).
Proof. exact all_fps. Qed.
Print Assumptions fingerprints_unique.

(* F20, the unchanged tree (CreateWallet consulted only serv.fingerprints):
   Create(seed 1); Unload; Create(seed 1) leaves two files with one fingerprint
   and a fresh service refuses to start. Fixed in /repo 5e505b54e; kept so that
   reload_total is seen to discriminate. *)
Theorem reload_total_v0_refuted :
  exists ops, forallb wf_op ops = true /\
    reload (disk (run_v0 ops init)) = RAbort /\ mem_eq_disk_b (run_v0 ops init) = false.
Proof. exact v0_refuted_ex. Qed.
Print Assumptions reload_total_v0_refuted.

(* non-vacuity *)
Example C19_example :
  forallb wf_op ex_history = true /\
  map w_name (mem (run ex_history init)) = ["a.wlt"; "t.wlt"; "b.wlt"]%string /\
  map w_name (disk (run ex_history init)) = ["a.wlt"; "c.wlt"; "b.wlt"]%string /\
  map w_n (mem (run ex_history init)) = [5; 1; 2] /\
  map w_c (disk (run ex_history init)) = [0; 0; 3] /\
  mem_eq_disk_b (run ex_history init) = true.
Proof. exact ex_history_ok. Qed.
Print Assumptions C19_example.
