(* C02 — The unspent set is exactly created-minus-spent; no output is spent twice.
   Statements only. `created_ids c` / `spent_ids c` are the ids of all outputs
   created / all inputs spent by the blocks of the stored chain c (genesis
   included). `ids_consistent g U` is the hypothesis that the id table of the
   submitted transactions U is consistent (an output id determines its source
   transaction's hash, a transaction hash determines its inputs, genesis ids are
   not reused) — SHA-256 collision freedom plus the harness's injective id
   assignment; its boolean form is evaluated on every generated history. *)
From Sky Require Import Base.Uint Model.Ledger Model.LedgerSpec Model.LedgerObs
  Proofs.LedgerBasics Proofs.LedgerProofs Proofs.LedgerUtxo Proofs.LedgerAppend Proofs.LedgerArb Proofs.LedgerPremises
  Proofs.LedgerExample.
From Coq Require Import Permutation.
Open Scope Z_scope.

(* after any history the unspent ids are exactly created minus spent *)
Theorem C02_utxo_exact : forall g ops, genesis_wf g -> ids_consistent g (ops_txns ops) ->
  let s := run (init_state g) ops in
  Permutation (ids (utxo s)) (list_minus (created_ids (chain s)) (spent_ids (chain s))).
Proof. exact utxo_exact. Qed.
Print Assumptions C02_utxo_exact.

(* each output is spent at most once across the whole chain *)
Theorem C02_spent_once : forall g ops, genesis_wf g -> ids_consistent g (ops_txns ops) ->
  NoDup (spent_ids (chain (run (init_state g) ops))).
Proof. exact spent_once. Qed.
Print Assumptions C02_spent_once.

(* an output id is created at most once across the whole chain *)
Theorem C02_created_once : forall g ops, genesis_wf g -> ids_consistent g (ops_txns ops) ->
  NoDup (created_ids (chain (run (init_state g) ops))).
Proof. exact created_once. Qed.
Print Assumptions C02_created_once.

(* the unspent set never lists an id twice (no hypothesis on the id table) *)
Theorem C02_unspent_ids_distinct : forall g ops, genesis_wf g ->
  NoDup (ids (utxo (run (init_state g) ops))).
Proof. exact unspent_ids_distinct. Qed.
Print Assumptions C02_unspent_ids_distinct.

(* a block is accepted only if every input it spends is unspent at the head ... *)
Theorem C02_accept_needs_unspent : forall s b s', step s (ExecBlock b) = (s', Accepted) ->
  incl (all_ins (b_txns b)) (ids (utxo s)).
Proof. exact accept_needs_unspent. Qed.
Print Assumptions C02_accept_needs_unspent.

(* ... and no two of its inputs (within or across its transactions) are the same output *)
Theorem C02_no_intra_block_double_spend : forall s b s', step s (ExecBlock b) = (s', Accepted) ->
  NoDup (all_ins (b_txns b)).
Proof. exact no_intra_block_double_spend. Qed.
Print Assumptions C02_no_intra_block_double_spend.

(* the ids an accepted block creates are pairwise distinct and not in the unspent
   set; whatever the id table, a colliding block is refused *)
Theorem C02_created_fresh_in_pool : forall s b s', step s (ExecBlock b) = (s', Accepted) ->
  NoDup (out_ids (b_txns b)) /\ forall x, In x (out_ids (b_txns b)) -> ~ In x (ids (utxo s)).
Proof. exact created_fresh_in_pool. Qed.
Print Assumptions C02_created_fresh_in_pool.

Theorem C02_collision_rejected : forall s b x, In x (out_ids (b_txns b)) -> In x (ids (utxo s)) ->
  snd (step s (ExecBlock b)) <> Accepted.
Proof. exact collision_rejected. Qed.
Print Assumptions C02_collision_rejected.

(* with a consistent id table a created id was never created before *)
Theorem C02_fresh_ids : forall g U s b s', ids_consistent g U -> inv_utxo g U s -> incl (b_txns b) U ->
  exec_block s b = (s', Accepted) ->
  forall x, In x (out_ids (b_txns b)) -> ~ In x (created_ids (chain s)).
Proof. exact new_ids_never_created. Qed.
Print Assumptions C02_fresh_ids.

(* the invariant (unspent = created minus spent, nothing created or spent twice)
   is preserved by the transaction-level checks and the unspent-set update alone *)
Theorem C02_utxo_step : forall g U s b head spent,
  ids_consistent g U -> incl (b_txns b) U ->
  process_txns (utxo s) head (b_txns b) = Pass ->
  get_array (all_ins (b_txns b)) (utxo s) = Some spent ->
  insert_ok s b = true ->
  inv_utxo g U s -> inv_utxo g U (apply_block s b spent).
Proof. exact apply_preserves_utxo. Qed.
Print Assumptions C02_utxo_step.

(* ---- the same on an ARBITRATING node (run_arb: exec_block_arb drops invalid /
   conflicting transactions and stores the rest) *)
Theorem C02_utxo_exact_arb : forall g ops, genesis_wf g -> ids_consistent g (ops_txns ops) ->
  let s := run_arb (init_state g) ops in
  Permutation (ids (utxo s)) (list_minus (created_ids (chain s)) (spent_ids (chain s))).
Proof. exact utxo_exact_arb. Qed.
Print Assumptions C02_utxo_exact_arb.

Theorem C02_spent_once_arb : forall g ops, genesis_wf g -> ids_consistent g (ops_txns ops) ->
  NoDup (spent_ids (chain (run_arb (init_state g) ops))).
Proof. exact spent_once_arb. Qed.
Print Assumptions C02_spent_once_arb.

Theorem C02_created_once_arb : forall g ops, genesis_wf g -> ids_consistent g (ops_txns ops) ->
  NoDup (created_ids (chain (run_arb (init_state g) ops))).
Proof. exact created_once_arb. Qed.
Print Assumptions C02_created_once_arb.

(* the kept transactions spend only unspent outputs, none twice, and create new ids *)
Theorem C02_arbitration_ok : forall pool head ts l, process_txns_arb pool head ts = ArbOk l ->
  txns_ok pool head l /\ incl l ts.
Proof. exact process_txns_arb_ok. Qed.
Print Assumptions C02_arbitration_ok.

Theorem C02_premises_checked : forall h, premises_b h = true ->
  genesis_wf (hi_genesis h) /\ ops_in_range (hist_ops h) /\
  ids_consistent (hi_genesis h) (ops_txns (hist_ops h)).
Proof. exact premises_sound. Qed.
Print Assumptions C02_premises_checked.

(* non-vacuity: in the example history output 1 is created by genesis, spent by
   block 1 (creating 4 and 8); the second spend of 1 is refused *)
Example C02_example :
  (genesis_wf ex_g /\ ops_in_range ex_ops /\ ids_consistent ex_g (ops_txns ex_ops)) /\
  snd (step (run (init_state ex_g) [ExecBlock ex_b1]) (ExecBlock ex_b2)) = Rejected EUnspentMissing /\
  ids (utxo (run (init_state ex_g) ex_ops)) = [4; 8] /\
  created_ids (chain (run (init_state ex_g) ex_ops)) = [4; 8; 1] /\
  spent_ids (chain (run (init_state ex_g) ex_ops)) = [1].
Proof. split; [exact ex_premises|]. vm_compute. repeat split. Qed.
Print Assumptions C02_example.
