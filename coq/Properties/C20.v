(* C20 — Wallet and key-value files survive a crash during a save.
   Statements only. Model: Model/SaveFile.v (one directory, the system calls of a
   save, ordered-write crash model, the decisions of wallet.NewService and of
   kvstorage.NewManager). The op list [service_ops] is compared on every run with
   the strace skeleton of the real service operations (Corr/C20_corr.v).

   For ALL directories d (any other files, leftovers of earlier crashes
   included), all file names, all new contents, all crash points k (number of
   completed system calls, any k) and all cut points of the interrupted write:
   the next start decides exactly as it would on the directory before the save
   or on the directory after the completed save. The loaders' parsing and
   acceptance checks are arbitrary functions (section variables), so the
   statement holds whatever "parses" means. *)
From Coq Require Import List String Bool ZArith.
From Sky Require Import Base.Uint Model.SaveFile Proofs.SaveFileProofs.
Import ListNotations.

(* wallet.NewService after a crash of a save of wallet file [name]
   (w = true: NewAddresses / ScanAddresses, which call file.IsWritable first) *)
Theorem save_crash_safe :
  forall (W : Type) (parse : content -> parsed W) (meta_ok : content -> bool)
         (accept : list (string * W) -> bool)
         (w : bool) (name h : string) (data : content) (d : dir) (k cut : nat),
  hex8b h = true ->
  let start := wallet_start W parse meta_ok accept in
  let c := crash (service_ops w name h data) k cut d in
  start c = start d \/ start c = start (set name data d).
Proof. exact wallet_crash_safe. Qed.
Print Assumptions save_crash_safe.

(* ... and the node still starts, provided it started before the save and
   starts on the saved directory *)
Theorem save_crash_service_starts :
  forall (W : Type) (parse : content -> parsed W) (meta_ok : content -> bool)
         (accept : list (string * W) -> bool)
         (w : bool) (name h : string) (data : content) (d : dir) (k cut : nat),
  hex8b h = true ->
  let start := wallet_start W parse meta_ok accept in
  start d <> Abort -> start (set name data d) <> Abort ->
  start (crash (service_ops w name h data) k cut d) <> Abort.
Proof. exact wallet_crash_starts. Qed.
Print Assumptions save_crash_service_starts.

(* key-value storage: the file is looked up by its exact name *)
Theorem save_crash_safe_kv :
  forall (K : Type) (parsekv : content -> option K)
         (name h : string) (data : content) (d : dir) (k cut : nat),
  let start := kv_start K parsekv in
  let c := crash (service_ops false name h data) k cut d in
  start name c = start name d \/ start name c = start name (set name data d).
Proof. exact kv_crash_safe. Qed.
Print Assumptions save_crash_safe_kv.

(* no silent reset to an empty storage *)
Theorem save_crash_kv_no_reset :
  forall (K : Type) (parsekv : content -> option K)
         (name h : string) (data : content) (d : dir) (k cut : nat),
  kv_start K parsekv name d <> KvResetCorrupt -> parsekv data <> None ->
  kv_start K parsekv name (crash (service_ops false name h data) k cut d) <> KvResetCorrupt.
Proof. exact kv_crash_no_reset. Qed.
Print Assumptions save_crash_kv_no_reset.

(* file names of any length: a name too long for its tmp file (more than 242
   bytes) makes the save fail before anything is written *)
Theorem save_crash_safe_all_names :
  forall (W : Type) (parse : content -> parsed W) (meta_ok : content -> bool)
         (accept : list (string * W) -> bool)
         (w : bool) (name h : string) (data : content) (d : dir) (k cut : nat),
  hex8b h = true ->
  let start := wallet_start W parse meta_ok accept in
  let c := crash (service_ops_fs w name h data) k cut d in
  start c = start d \/ start c = start (set name data d).
Proof. exact wallet_crash_safe_fs. Qed.
Print Assumptions save_crash_safe_all_names.

Theorem save_crash_safe_kv_all_names :
  forall (K : Type) (parsekv : content -> option K) name h data d k cut,
  let c := crash (service_ops_fs false name h data) k cut d in
  kv_start K parsekv name c = kv_start K parsekv name d \/
  kv_start K parsekv name c = kv_start K parsekv name (set name data d).
Proof. exact kv_crash_safe_fs. Qed.
Print Assumptions save_crash_safe_kv_all_names.

Theorem save_long_name_is_noop :
  forall (w : bool) (name h : string) (data : content) (d : dir) (k cut : nat),
  tmp_creatable name = false -> crash (service_ops_fs w name h data) k cut d = d.
Proof. exact long_name_save_is_noop. Qed.
Print Assumptions save_long_name_is_noop.

(* no data lost elsewhere: every file other than the target and the tmp file
   keeps its content at every crash point *)
Theorem save_crash_other_files_untouched :
  forall (w : bool) (name h : string) (data : content) (d : dir) (k cut : nat) (m : string),
  m <> tmp_name name h -> m <> name ->
  get m (crash (service_ops w name h data) k cut d) = get m d.
Proof. exact crash_other_files. Qed.
Print Assumptions save_crash_other_files_untouched.

(* the tmp file is invisible to the wallet loader because of its name *)
Theorem tmp_file_not_loaded : forall name h, hex8b h = true -> wlt_visible (tmp_name name h) = false.
Proof. exact tmp_not_visible. Qed.
Print Assumptions tmp_file_not_loaded.

(* The op lists of the unchanged tree (SaveBinary rewriting the target in
   place, IsWritable truncating) are refuted: F10, fixed in /repo 3148cc2b5.
   Kept so that the theorem above is seen to discriminate. *)
Theorem save_crash_safe_v0_refuted :
  exists k cut,
    let c := crash (service_ops_v0 false "a.wlt" "57a94cad" ex_new) k cut ex_dir in
    wallet_start content ex_parse (fun _ => true) (fun _ => true) c = Abort /\
    kv_start content (parsekv_known [ex_old; ex_new]) "a.wlt" c = KvResetCorrupt.
Proof. exact v0_not_crash_safe. Qed.
Print Assumptions save_crash_safe_v0_refuted.

Theorem iswritable_v0_loses_data :
  let c := crash (service_ops_v0 true "a.wlt" "57a94cad" ex_new) 1 0 ex_dir in
  get "a.wlt" c = Some [] /\ get (tmp_name "a.wlt" "57a94cad") c = None.
Proof. exact v0_iswritable_loses_data. Qed.
Print Assumptions iswritable_v0_loses_data.

(* non-vacuity: a crash in the middle of the tmp write of the fixed save; the
   service starts with the old wallets; after the rename with the new ones *)
Example C20_example :
  let c := crash (service_ops true "a.wlt" "57a94cad" ex_new) 2 3 ex_dir in
  get (tmp_name "a.wlt" "57a94cad") c = Some [123; 50; 50]%Z /\
  hex8b "57a94cad" = true /\
  wallet_start content ex_parse (fun _ => true) (fun _ => true) c =
    Started [("a.wlt"%string, ex_old); ("b.wlt"%string, [123; 125]%Z)] /\
  wallet_start content ex_parse (fun _ => true) (fun _ => true)
    (crash (service_ops true "a.wlt" "57a94cad" ex_new) 5 0 ex_dir) =
    Started [("a.wlt"%string, ex_new); ("b.wlt"%string, [123; 125]%Z)].
Proof. exact fixed_example. Qed.
Print Assumptions C20_example.
