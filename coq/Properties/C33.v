(* C33 — Nodes syncing from peers converge on the publisher's chain.
   Statements only; model in Model/Sync.v (mirrors GiveBlocksMessage.process and
   ExecuteSignedBlock), proofs in Proofs/SyncProofs.v.
   A schedule is ANY list of messages, each ANY list of blocks: any order,
   duplicates, losses, splittings, forged / re-signed / mutated blocks (bkind).
   f1 says whether the tree accepts a publisher-signed header with another
   PrevHash (defect F1, owned by C04); every theorem holds for both values. *)
From Sky Require Import Base.Uint Model.Sync Proofs.SyncProofs.
From Coq Require Import List.
Import ListNotations.
Open Scope Z_scope.

(* what one message does: skip what is not above the head read at entry, then take
   blocks in message order while each is the valid next block; reply iff progress *)
Theorem C33_deliver_spec : forall f1 reqn held msg,
  deliver f1 reqn held msg =
  let held' := take_chain f1 held (above (head_of held) msg) in
  (held', if head_of held' =? head_of held then []
          else [Announce (head_of held'); Request (head_of held') reqn]).
Proof. exact deliver_spec. Qed.
Print Assumptions C33_deliver_spec.

(* sync_prefix + never_unsigned: after any schedule the node holds blocks number
   1..head in order, each carrying a signature that verifies under the publisher
   key and the publisher's content for that number — a prefix of the publisher's chain *)
Theorem C33_sync_prefix : forall f1 reqn sched,
  let held := final f1 reqn [] sched in
  Forall (fun b => sig_ok b = true /\ content_ok f1 b = true) held /\
  map d_seq held = seqs_from 1 (List.length held).
Proof. exact held_is_prefix. Qed.
Print Assumptions C33_sync_prefix.

Theorem C33_never_unsigned : forall f1 reqn sched b,
  In b (final f1 reqn [] sched) -> sig_ok b = true.
Proof. exact never_unsigned. Qed.
Print Assumptions C33_never_unsigned.

(* it holds only blocks it was given (in valid form, in some message) *)
Theorem C33_holds_only_given : forall f1 reqn sched k,
  1 <= k <= head_of (final f1 reqn [] sched) -> delivered_valid f1 sched k.
Proof. exact held_was_delivered. Qed.
Print Assumptions C33_holds_only_given.

(* hence never more than the longest gap-free prefix of what it was given *)
Theorem C33_head_le_longest : forall f1 reqn sched g,
  gapfree f1 sched g -> head_of (final f1 reqn [] sched) <= g.
Proof. exact head_le_gapfree. Qed.
Print Assumptions C33_head_le_longest.

Theorem C33_head_monotone : forall f1 reqn sched held,
  head_of held <= head_of (final f1 reqn held sched).
Proof. exact head_monotone. Qed.
Print Assumptions C33_head_monotone.

(* sync_longest: whatever was delivered before and in whatever order, once the
   blocks are delivered again in order (one message, or one block per message)
   the node holds EXACTLY the longest gap-free prefix of what it was given *)
Theorem C33_sync_longest_one : forall f1 reqn sched g,
  gapfree f1 sched g ->
  head_of (final f1 reqn [] (sched ++ redeliver_one (Z.to_nat g))) = g.
Proof. exact sync_longest_one. Qed.
Print Assumptions C33_sync_longest_one.

Theorem C33_sync_longest_each : forall f1 reqn sched g,
  gapfree f1 sched g ->
  head_of (final f1 reqn [] (sched ++ redeliver_each (Z.to_nat g))) = g.
Proof. exact sync_longest_each. Qed.
Print Assumptions C33_sync_longest_each.

(* fair re-delivery in ANY order: if every pass contains each of the blocks 1..g as
   a message of its own (anywhere among arbitrary other messages, forged ones
   included), the head gains at least one per pass until it reaches g *)
Theorem C33_fair_any_order : forall f1 reqn g (passes : list (list (list dblock))) held,
  (forall pass, In pass passes -> forall k, 1 <= k <= g -> In [mkd k Genuine] pass) ->
  Z.min g (head_of held + Z.of_nat (List.length passes)) <= head_of (final f1 reqn held (List.concat passes)).
Proof. exact fair_passes_converge. Qed.
Print Assumptions C33_fair_any_order.

(* the executable longest-gap-free-prefix function used by the run-time check is the relational one *)
Theorem C33_gapfree_fn_correct : forall f1 sched, gapfree f1 sched (gapfree_fn f1 sched).
Proof. exact gapfree_fn_correct. Qed.
Print Assumptions C33_gapfree_fn_correct.

(* requests: after each message, no reply if the head did not move, otherwise the new
   head is announced and the blocks above it are requested *)
Theorem C33_requests_follow_head : forall f1 reqn sched held,
  trace_ok reqn (head_of held) (snd (run f1 reqn held sched)).
Proof. exact requests_follow_head. Qed.
Print Assumptions C33_requests_follow_head.

Theorem C33_requests_above_head : forall f1 reqn sched i h rep,
  nth_error (snd (run f1 reqn [] sched)) i = Some (h, rep) ->
  (forall last n, In (Request last n) rep -> last = h /\ n = reqn) /\
  (head_of (final f1 reqn [] (firstn i sched)) < h -> In (Request h reqn) rep).
Proof. exact requests_above_head. Qed.
Print Assumptions C33_requests_above_head.

(* the request / response cycle with an honest peer that holds blocks 1..n (its
   GetBlocksMessage.process answers each request with at most min(requested, cap)
   blocks): the follower ends holding exactly n blocks, gaining min(requested, cap)
   per round *)
Theorem C33_honest_peer_converges : forall f1 reqn n cap fuel held,
  1 <= reqn -> 1 <= cap -> head_of held <= n -> (Z.to_nat (n - head_of held) <= fuel)%nat ->
  head_of (fst (sync_loop f1 reqn n cap fuel held)) = n.
Proof. exact honest_peer_converges. Qed.
Print Assumptions C33_honest_peer_converges.

Theorem C33_honest_peer_heads : forall f1 reqn n cap fuel held,
  1 <= reqn -> 1 <= cap -> head_of held <= n ->
  let c := Z.min reqn cap in
  forall i h, nth_error (snd (sync_loop f1 reqn n cap fuel held)) i = Some h ->
  h = Z.min n (head_of held + (Z.of_nat i + 1) * c).
Proof. exact honest_peer_heads. Qed.
Print Assumptions C33_honest_peer_heads.

(* non-vacuity: 3 then 1,1,2 (the duplicate stops the message), a forged 2, then 2,3 *)
Example C33_example :
  let s := [[mkd 3 Genuine]; [mkd 1 Genuine; mkd 1 Genuine; mkd 2 Genuine];
            [mkd 2 BadSig; mkd 2 Genuine]; [mkd 2 Genuine; mkd 3 Genuine]] in
  map fst (snd (run false 20 [] s)) = [0; 1; 1; 3] /\
  gapfree_fn false s = 3 /\
  head_of (final false 20 [] ([[mkd 3 Genuine]; [mkd 1 Genuine]] ++ redeliver_one 1)) = 1 /\
  snd (sync_loop false 3 10 2 50 [mkd 1 Genuine]) = [3; 5; 7; 9; 10].
Proof. vm_compute. repeat split. Qed.
Print Assumptions C33_example.
