(* C09 — Transaction validity is exactly the documented rule set.
   Statements only; proofs are in Proofs/TxVerifyProofs.v.  The model
   (Model/TxVerify.v) mirrors coin.Transaction.verify check by check; the
   output-coin sum is the translated mathutil.AddUint64 (Gen/Mathutil.v).
   Canonical decoding of byte strings is covered by the generic codec theorem of
   C21 and, for C09, checked on the implementation by the decidable property
   "decodes => re-encoding = input" (Corr/C09_prop.v). *)
From Sky Require Import Base.Uint Gen.Mathutil Model.TxVerify Proofs.TxVerifyProofs.
Open Scope Z_scope.

(* verify = ok  <->  the conjunction of the documented rules.
   Premise facts_consistent: the supplied output ids are an injective function of
   the outputs (SHA-256 collision freedom on the transaction), the encoder fails
   exactly above 65535 elements, coin amounts are 64-bit. *)
Theorem C09_verify_iff : forall signed t, facts_consistent t ->
  (verify signed t = Val None <-> well_formed signed t).
Proof. exact verify_iff. Qed.
Print Assumptions C09_verify_iff.

(* the count clauses, explicitly: acceptance implies one signature per input and
   1..65535 inputs / outputs; conversely (verify_iff) a well-formed transaction
   with exactly 65535 inputs or outputs is accepted — the encoder's limit is
   65535 elements, `t_size t = Some _` holds up to and including that count *)
Theorem C09_verify_ok_counts : forall signed t, facts_consistent t -> verify signed t = Val None ->
  len (t_sigs t) = len (t_ins t) /\ 1 <= len (t_ins t) <= 65535 /\ 1 <= len (t_outs t) <= 65535.
Proof. exact verify_ok_counts. Qed.
Print Assumptions C09_verify_ok_counts.

(* the verifier never panics, whatever the facts *)
Theorem C09_verify_total : forall signed t, verify signed t <> Panic.
Proof. exact verify_total. Qed.
Print Assumptions C09_verify_total.

(* which rule is reported when several fail: the first one of the ordered list *)
Theorem C09_first_error_order : forall signed t e, facts_consistent t ->
  (verify signed t = Val e <-> FirstFail (rule_list signed t) e).
Proof. exact verify_first_fail. Qed.
Print Assumptions C09_first_error_order.

(* the decidable forms evaluated on the implementation's outputs mean well_formed *)
Theorem C09_well_formed_b : forall signed t,
  well_formed_b signed t = true <-> well_formed signed t.
Proof. exact well_formed_b_spec. Qed.
Print Assumptions C09_well_formed_b.

Theorem C09_well_formed_fast_b : forall signed t,
  Forall (fun o => 0 <= o_addr o /\ 0 <= o_coins o /\ 0 <= o_hours o) (t_outs t) ->
  (well_formed_fast_b signed t = true <-> well_formed signed t).
Proof. exact well_formed_fast_b_spec. Qed.
Print Assumptions C09_well_formed_fast_b.

(* the boolean premise evaluated on every generated case implies the premise of
   the theorems above *)
Theorem C09_premise_decidable : forall cap t,
  len (t_outs t) <= cap -> facts_consistent_b cap t = true -> facts_consistent t.
Proof. exact facts_consistent_b_spec. Qed.
Print Assumptions C09_premise_decidable.

(* VerifyInputSignatures under its caller's precondition *)
Theorem C09_verify_input_sigs_iff : forall t ux,
  List.length (t_ins t) = List.length ux -> List.length (t_ins t) = List.length (t_sigs t) ->
  t_inner_actual t = Some (t_inner t) -> t_ins t = map fst ux ->
  exists e, verify_input_sigs t ux = Val e /\
    (e = None <-> Forall2 (fun s u => sf_null s = false /\ sf_verr s = None /\ sf_addr s = snd u) (t_sigs t) ux).
Proof. exact verify_input_sigs_iff. Qed.
Print Assumptions C09_verify_input_sigs_iff.

(* non-vacuity: a concrete transaction meeting the premises that is accepted,
   and one on which two rules fail (duplicate output and wrong type): the
   earlier rule (type) is the one reported *)
Example C09_example :
  let ok := mk_txn 183 0 77 (Some 77) (Some 183) [mk_sig false None 5] [11] [mk_out 1 10 3; mk_out 1 10 4] [100; 101] in
  let bad := mk_txn 183 1 77 (Some 77) (Some 183) [mk_sig false None 5] [11] [mk_out 1 10 3; mk_out 1 10 3] [100; 100] in
  facts_consistent_b 300 ok = true /\ verify true ok = Val None /\ well_formed_b true ok = true /\
  facts_consistent_b 300 bad = true /\ verify true bad = Val (Some "transaction type invalid"%string) /\
  well_formed_b true bad = false.
Proof. vm_compute. repeat split; reflexivity. Qed.
Print Assumptions C09_example.
