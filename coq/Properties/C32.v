(* C32 — The connection pool is race-free and shuts down under any schedule.
   PARTIAL by nature. Statements only. Model: Model/StrandPool.v — the strand
   protocol (strand.Strand, processStrand, Shutdown, Run) as a transition system;
   `reachable s` quantifies over ALL caller programs and ALL schedules.
   What these theorems cover: the channel protocol (mutual exclusion of the
   sections that touch the pool maps, absence of deadlock, termination, the pool
   is empty once Shutdown is past disconnectAll, which results a call can have).
   What they cannot exhibit: Go memory-model races on memory that is not the
   modelled pool state, socket behaviour, timers — those are sampled by the
   harness under the Go race detector (see the level note). *)
From Sky Require Import Base.Uint Model.StrandPool Proofs.StrandPoolProofs.
From Coq Require Import List.
Import ListNotations.

(* at most one thread is inside a section that reads or writes the pool state:
   the strand worker executing a request, or Shutdown's disconnectAll (which
   only runs once the worker has exited) *)
Theorem C32_mutual_exclusion : forall s, reachable s -> (in_section_count s <= 1)%nat.
Proof. exact mutual_exclusion. Qed.
Print Assumptions C32_mutual_exclusion.

(* ... and the pool state only ever changes in a step taken inside such a section *)
Theorem C32_state_changes_in_section : forall s l s',
  step s l = Some s' -> conns s' <> conns s -> worker_in_section s = true \/ shutdown_in_section s = true.
Proof. exact state_changes_in_section. Qed.
Print Assumptions C32_state_changes_in_section.

(* no deadlock: every reachable state is quiescent (every caller finished and
   Shutdown not called, or returned) or some thread has an enabled step — not
   counting the environment's choice to call Shutdown *)
Theorem C32_no_deadlock : forall s, reachable s ->
  quiescent s = true \/ exists l s', l <> LShutStart /\ step s l = Some s'.
Proof. exact no_deadlock. Qed.
Print Assumptions C32_no_deadlock.

(* no livelock: every schedule is finite (each step decreases a measure), so with
   C32_no_deadlock every maximal run ends quiescent: all calls returned, and
   Shutdown, if it was called, returned *)
Theorem C32_schedules_are_finite : forall ls s s',
  exec s ls = Some s' -> (length ls + measure s' <= measure s)%nat.
Proof. exact schedules_are_finite. Qed.
Print Assumptions C32_schedules_are_finite.

(* once quit is closed a caller inside Strand() is never blocked: one own step
   returns, with pool-closed *)
Theorem C32_caller_finishes_after_quit : forall s i c,
  nth_error (callers s) i = Some c -> quit s = true -> mid_call c = true ->
  exists l s' c' r, (l = LSendQuit i \/ l = LWaitQuit i) /\ step s l = Some s' /\
    nth_error (callers s') i = Some c' /\ cst c' = CIdle /\ results c' = r :: results c.
Proof. exact caller_finishes_after_quit. Qed.
Print Assumptions C32_caller_finishes_after_quit.

(* a call returns pool-closed only after Shutdown closed quit; a request is never
   accepted after the strand worker has exited (so a call started after Shutdown
   returned cannot succeed) *)
Theorem C32_closed_only_after_quit : forall s i s',
  quit s = false -> step s (LSendQuit i) = Some s' \/ step s (LWaitQuit i) = Some s' -> False.
Proof. exact closed_only_after_quit. Qed.
Print Assumptions C32_closed_only_after_quit.

Theorem C32_no_accept_after_strand_done : forall s i, worker s = WExited -> step s (LAccept i) = None.
Proof. exact no_accept_after_strand_done. Qed.
Print Assumptions C32_no_accept_after_strand_done.

(* after disconnectAll no connection is registered, and none can be added
   any more (the worker has exited) *)
Theorem C32_shutdown_empties : forall s, reachable s ->
  (shut s = SWaitDone \/ shut s = SFinished) -> conns s = [] /\ worker s = WExited.
Proof. exact shutdown_empties. Qed.
Print Assumptions C32_shutdown_empties.

(* life cycle: the initial state has NO strand goroutine (`WNotStarted`); Run starts it
   (`LRunStart`) at any point of the schedule - before or after calls have been issued,
   before or after Shutdown was called - and may then return early with a listen
   error (`LRunFail`) at any point. All theorems above quantify over these
   schedules too; in particular C32_no_deadlock / C32_schedules_are_finite say that
   Shutdown after a failed Run, and calls issued in between, terminate. What they
   rest on: Run's done channel is never closed while the strand goroutine does not exist. *)
Theorem C32_run_return_implies_strand_started : forall s,
  reachable s -> run_done s = true -> worker s <> WNotStarted.
Proof. exact run_return_implies_strand_started. Qed.
Print Assumptions C32_run_return_implies_strand_started.

(* non-vacuity: two callers, one request accepted before quit and abandoned by
   its caller while it still runs (the caller gets pool-closed, the request
   still registers connection 7), the other refused; Shutdown removes the
   connection and returns *)
Example C32_example :
  let progs := [(false, [OpAdd 7%Z]); (true, [OpQuery])] in
  let sched := [LRunStart; LStart 0; LAccept 0; LStart 1; LShutStart; LWaitQuit 0; LSendQuit 1; LExec;
                LWorkerQuit; LShutStrandDone; LShutListener] in
  (exists s, exec (init progs) sched = Some s /\ conns s = [7%Z] /\ shut s = SDisconnect /\ worker s = WExited /\
             map results (callers s) = [[RClosed]; [RClosed]]) /\
  (exists s, exec (init progs) (sched ++ [LShutDisconnect; LRunDone; LShutFinish]) = Some s /\
             conns s = [] /\ quiescent s = true) /\
  (* a call issued before Run, Run failing to listen, then Shutdown: everything returns *)
  (exists s, exec (init progs) [LStart 0; LRunStart; LRunFail; LAccept 0; LExec; LWaitDone 0; LShutStart; LStart 1; LSendQuit 1;
                                LWorkerQuit; LShutStrandDone; LShutListener; LShutDisconnect; LShutFinish] = Some s /\
             quiescent s = true /\ map results (callers s) = [[ROk]; [RClosed]]).
Proof. repeat split; eexists; repeat split; vm_compute; reflexivity. Qed.
Print Assumptions C32_example.
