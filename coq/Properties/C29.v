(* C29 — Transaction paging partitions the result list. Statements only; each is
   closed by `exact` of a lemma proved against the Gallina regenerated from
   visor.NewPageIndex / PageIndex.Cal (Gen/Page.v).
   `page l size n` (Model/Paging.v) is what Pagination returns for the list l:
   (items, reported total pages, error), or Panic (slice out of range). *)
From Sky Require Import Base.Uint Gen.Page Model.Paging Proofs.PagingProofs.
Open Scope Z_scope.

(* for every list a Go slice can hold, every page size 1..100: the pages 1..N
   (N = ceil(len/size)) succeed, each reports N as the page count, their
   concatenation is the list, and EVERY page number above N up to 2^64-1 is empty *)
Theorem C29_pages_partition : forall (A : Type) (l : list A) size,
  1 <= size <= 100 -> Z.of_nat (List.length l) < 2 ^ 63 ->
  let N := page_count (Z.of_nat (List.length l)) size in
  exists ps : list (list A),
    Forall2 (fun n p => page l size n = Val (p, N, None)) (pages_upto N) ps /\
    List.concat ps = l /\
    forall n, N < n < 2 ^ 64 -> page l size n = Val ([], N, None).
Proof. exact @pages_partition. Qed.
Print Assumptions C29_pages_partition.

(* each page is the consecutive slice size*(n-1) .. size*n-1 *)
Theorem C29_page_is_slice : forall (A : Type) (l : list A) size n,
  1 <= size <= 100 -> 1 <= n < 2 ^ 64 -> Z.of_nat (List.length l) < 2 ^ 63 ->
  page l size n = Val (chunk l size n, page_count (Z.of_nat (List.length l)) size, None).
Proof. exact @page_spec. Qed.
Print Assumptions C29_page_is_slice.

Theorem C29_chunk_is_firstn_skipn : forall (A : Type) (l : list A) size n,
  chunk l size n = firstn (Z.to_nat size) (skipn (Z.to_nat (size * (n - 1))) l).
Proof. exact @chunk_firstn_skipn. Qed.
Print Assumptions C29_chunk_is_firstn_skipn.

(* the translated Cal itself, also for page sizes NewPageIndex would refuse *)
Theorem C29_Cal : forall size n len,
  1 <= size < 2 ^ 63 -> 1 <= n < 2 ^ 64 -> 0 <= len < 2 ^ 63 ->
  PageIndex_Cal size n len = Val (cal_spec size n len).
Proof. exact Cal_spec. Qed.
Print Assumptions C29_Cal.

(* requests outside the limits are refused; no request panics *)
Theorem C29_page_rejects : forall (A : Type) (l : list A) size n, 0 <= size -> 0 <= n ->
  ~ (1 <= size <= 100 /\ 1 <= n) -> exists e, page l size n = Val ([], 0, Some e).
Proof. exact @page_rejects. Qed.
Print Assumptions C29_page_rejects.

Theorem C29_page_no_panic : forall (A : Type) (l : list A) size n,
  0 <= size < 2 ^ 64 -> 0 <= n < 2 ^ 64 -> Z.of_nat (List.length l) < 2 ^ 63 ->
  page l size n <> Panic.
Proof. exact @page_no_panic. Qed.
Print Assumptions C29_page_no_panic.

(* non-vacuity: 10 items, size 3: four pages; the request that used to wrap
   (size 2, page 2^63+1) is now empty *)
Example C29_example :
  map (page (zseq 0 10) 3) [1; 2; 3; 4; 5] =
    [Val ([0; 1; 2], 4, None); Val ([3; 4; 5], 4, None); Val ([6; 7; 8], 4, None);
     Val ([9], 4, None); Val ([], 4, None)] /\
  page (zseq 0 10) 2 9223372036854775809 = Val ([], 5, None).
Proof. split; vm_compute; reflexivity. Qed.
Print Assumptions C29_example.
