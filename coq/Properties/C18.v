(* C18 — Wallet encryption protects secrets and decryption is robust.
   Statements only. Models: Model/WalletCrypt.v (hand-written, tied to the code by
   the correspondence run of every check). The cipher laws, the 32-byte output
   of SHA256 / the keystream and the memory bound are premises, not axioms. *)
From Sky Require Import Base.Uint Model.WalletCrypt Proofs.DecryptProofs Proofs.WalletLockProofs.
Open Scope Z_scope.

(* ---- decryption is robust: for ALL byte strings, passwords and oracle answers
   (hash values, keystream, base64 / JSON / AEAD results) the framing code of
   Decrypt returns plaintext or an error; Panic also stands for running out of
   loop fuel, so termination of the block loop is part of the statement *)
Theorem C18_decrypt_total_sha256xor :
  forall (H : bytes -> bytes) (KS : bytes -> Z -> bytes) (pw_empty : bool) (dec : option bytes),
    sha_decrypt H KS pw_empty dec <> Panic.
Proof. exact decrypt_total_sha256xor. Qed.
Print Assumptions C18_decrypt_total_sha256xor.

(* scrypt-chacha20poly1305: total for every input whose metadata asks scrypt for no
   more memory than the process has (mem_ok). The unrestricted statement
   `forall J aead mem_limit pw_empty dec, scrypt_decrypt ... <> Panic` is false: *)
Theorem C18_decrypt_total_scrypt_partial :
  forall (J : bytes -> option smeta) (aead_open : smeta -> bytes -> bytes -> option bytes) (mem_limit : Z),
    mem_ok J mem_limit ->
    forall (pw_empty : bool) (dec : option bytes), scrypt_decrypt J aead_open mem_limit pw_empty dec <> Panic.
Proof. exact decrypt_total_scrypt_partial. Qed.
Print Assumptions C18_decrypt_total_scrypt_partial.

(* well-formed metadata (N = 2^40, r = p = 1, keyLen 32, 12-byte nonce) passes every
   check and makes scrypt.Key allocate 128 TiB: the process dies (known finding,
   replayed on the implementation by every check run) *)
Theorem C18_decrypt_total_scrypt_refuted :
  forall (aead_open : smeta -> bytes -> bytes -> option bytes) (mem_limit : Z),
    mem_limit < 2 ^ 47 ->
    scrypt_decrypt (fun _ => Some hostile_meta) aead_open mem_limit false (Some [0; 0]) = Panic.
Proof. exact decrypt_total_scrypt_refuted. Qed.
Print Assumptions C18_decrypt_total_scrypt_refuted.

(* F4 (repaired in /repo by 63a43b8ac): the model of Decrypt as it was panics on the
   empty ciphertext, on length fields 65534 / 65535, on a 3-byte nonce, on r = 0,
   p = 0, keyLen < 0; the model of Decrypt as it is returns an error on each *)
Theorem C18_F4_before_and_after :
  forallb (fun c : (bytes -> option smeta) * option bytes * Z =>
             let '(J, dec, cap) := c in
             match scrypt_decrypt_v0 J (fun _ _ _ => None) (2 ^ 36) false dec cap with Panic => true | _ => false end) f4_inputs = true
  /\ forallb (fun c : (bytes -> option smeta) * option bytes * Z =>
             let '(J, dec, cap) := c in
             match scrypt_decrypt J (fun _ _ _ => None) (2 ^ 36) false dec with Val (DErr _) => true | _ => false end) f4_inputs = true.
Proof. exact F4_before_and_after. Qed.
Print Assumptions C18_F4_before_and_after.

(* sha256xor: decrypting what Encrypt produced gives the data back, for every hash
   function and keystream with 32-byte outputs (the framing is its own inverse) *)
Theorem C18_sha256xor_roundtrip :
  forall (H : bytes -> bytes) (KS : bytes -> Z -> bytes),
    (forall x, List.length (H x) = 32%nat) -> (forall n i, List.length (KS n i) = 32%nat) ->
    forall nonce data, List.length nonce = 32%nat -> len data < 4294967296 - 32 ->
      sha_decrypt H KS false (Some (sha_encrypt H KS nonce data)) = Val (DOk data).
Proof. exact sha256xor_roundtrip. Qed.
Print Assumptions C18_sha256xor_roundtrip.

(* ---- locking removes every secret from the serialised wallet *)
Theorem C18_lock_hides :
  forall (C : Type) (enc : string -> Z -> secrets -> C) (w w' : wallet C) (pw : string) (n : Z),
    wf_kind C w -> lock C enc pw n w = (w', None) ->
    forall k v, In (k, v) (serialize C w') -> secret_key k = true -> v = FStr "".
Proof. exact lock_hides. Qed.
Print Assumptions C18_lock_hides.

(* the serialised locked wallet is a function of the wallet's public part and the
   ciphertext alone *)
Theorem C18_lock_serialization_public :
  forall (C : Type) (enc : string -> Z -> secrets -> C) (w w' : wallet C) (pw : string) (n : Z),
    wf_kind C w -> lock C enc pw n w = (w', None) ->
    serialize C w' = locked_view C (public_part C w) (enc pw n (pack C w)).
Proof. exact lock_serialization_public. Qed.
Print Assumptions C18_lock_serialization_public.

(* ---- unlocking with the same password restores exactly the original wallet;
   dec_enc / dec_wrong are the AEAD (resp. checksum) laws of the cipher *)
Theorem C18_unlock_restores :
  forall (C : Type) (enc : string -> Z -> secrets -> C) (dec : string -> C -> option secrets),
    (forall pw n d, dec pw (enc pw n d) = Some d) ->
    forall (w w' : wallet C) (pw : string) (n n' : Z),
      wf_kind C w -> names_ok C w -> w_ct C w = None ->
      lock C enc pw n w = (w', None) ->
      unlock C enc dec pw n' w' = (w', UOk w).
Proof. exact unlock_restores. Qed.
Print Assumptions C18_unlock_restores.

Theorem C18_wrong_pw_rejected :
  forall (C : Type) (enc : string -> Z -> secrets -> C) (dec : string -> C -> option secrets),
    (forall pw pw' n d, pw' <> pw -> dec pw' (enc pw n d) = None) ->
    forall (w w' : wallet C) (pw pw' : string) (n n' : Z),
      lock C enc pw n w = (w', None) -> pw' <> pw -> pw' <> ""%string ->
      unlock C enc dec pw' n' w' = (w', UErr "ErrInvalidPassword").
Proof. exact wrong_pw_rejected. Qed.
Print Assumptions C18_wrong_pw_rejected.

(* non-vacuity: the ideal cipher meets both laws; a bip44 wallet with a passphrase,
   an account key and an entry meets the premises, its locked form shows no secret
   and unlocks to the original *)
Definition ex_wallet : wallet ideal_C :=
  {| w_kind := KBip44; w_temp := false; w_seed := "abandon ability able"; w_lastseed := ""; w_pass := "pp";
     w_xprv := [("bip44AccountPrivateKey-0"%string, "xprvA"%string)];
     w_chains := [[{| e_addr := "2Addr"; e_sec := "5ec"; e_osec := "5ec" |}]; []];
     w_enc := false; w_ct := None |}.
Example C18_example :
  (forall pw n d, ideal_dec pw (ideal_enc pw n d) = Some d)
  /\ (forall pw pw' n d, pw' <> pw -> ideal_dec pw' (ideal_enc pw n d) = None)
  /\ wf_kindb _ ex_wallet = true
  /\ (let w' := fst (lock _ ideal_enc "pw" 7 ex_wallet) in
      serialize _ w' = [("seed"%string, FStr ""); ("lastSeed"%string, FStr ""); ("seedPassphrase"%string, FStr "");
                        ("secrets"%string, FCipher (Some ("pw"%string, pack _ ex_wallet)));
                        ("private_key"%string, FStr ""); ("address"%string, FStr "2Addr"); ("secret"%string, FStr "")]
      /\ snd (unlock _ ideal_enc ideal_dec "pw" 9 w') = UOk ex_wallet
      /\ snd (unlock _ ideal_enc ideal_dec "pw2" 9 w') = UErr "ErrInvalidPassword").
Proof.
  split; [|split; [|split; [|split; [|split]]]]; try (vm_compute; reflexivity).
  - intros pw n d. unfold ideal_dec, ideal_enc. cbn [fst snd]. rewrite String.eqb_refl. reflexivity.
  - intros pw pw' n d Hne. unfold ideal_dec, ideal_enc. cbn [fst snd].
    destruct (String.eqb_spec pw' pw); [contradiction|reflexivity].
Qed.
Print Assumptions C18_example.

(* unlock_restores does not ask for distinct addresses (names_ok only asks that equal
   addresses carry equal secrets): a collection wallet holding the same key twice
   is restored entry by entry *)
Definition ex_dup_wallet : wallet ideal_C :=
  {| w_kind := KColl; w_temp := false; w_seed := ""; w_lastseed := ""; w_pass := ""; w_xprv := [];
     w_chains := [[{| e_addr := "A0"; e_sec := "k0"; e_osec := "k0" |}; {| e_addr := "A1"; e_sec := "k1"; e_osec := "k1" |};
                   {| e_addr := "A0"; e_sec := "k0"; e_osec := "k0" |}]];
     w_enc := false; w_ct := None |}.
Example C18_example_duplicates :
  snd (unlock _ ideal_enc ideal_dec "pw" 9 (fst (lock _ ideal_enc "pw" 7 ex_dup_wallet))) = UOk ex_dup_wallet.
Proof. vm_compute. reflexivity. Qed.
Print Assumptions C18_example_duplicates.
