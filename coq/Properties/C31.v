(* C31 — Checked arithmetic, fee and coin-hour formulas are correct for all
   values. Statements only; each is closed by `exact` of a lemma proved against
   the Gallina regenerated from /repo (Gen/Mathutil.v, Gen/Fee.v, Gen/CoinHours.v). *)
From Sky Require Import Base.Uint Model.ArithSpec Gen.Mathutil Gen.Fee Gen.CoinHours
  Gen.CoinLoops Gen.FeeTxn Gen.CoinTruncate
  Proofs.MathutilProofs Proofs.FeeProofs Proofs.CoinHoursProofs Proofs.CoinLoopsProofs Proofs.CoinTruncateProofs.
Open Scope Z_scope.

(* checked helpers: an error exactly when the mathematical result does not fit *)
Theorem C31_AddUint64 : forall a b, in_u 64 a -> in_u 64 b ->
  AddUint64 a b = ret_or_err (a + b <? 2 ^ 64) (a + b) "ErrUint64AddOverflow".
Proof. exact AddUint64_spec. Qed.
Print Assumptions C31_AddUint64.

Theorem C31_MultUint64 : forall a b, in_u 64 a -> in_u 64 b ->
  MultUint64 a b = ret_or_err (a * b <? 2 ^ 64) (a * b) "ErrUint64MultOverflow".
Proof. exact MultUint64_spec. Qed.
Print Assumptions C31_MultUint64.

Theorem C31_AddUint32 : forall a b, in_u 32 a -> in_u 32 b ->
  AddUint32 a b = ret_or_err (a + b <? 2 ^ 32) (a + b) "ErrUint32AddOverflow".
Proof. exact AddUint32_spec. Qed.
Print Assumptions C31_AddUint32.

Theorem C31_Uint64ToInt64 : forall a, in_u 64 a ->
  Uint64ToInt64 a = ret_or_err (a <? 2 ^ 63) a "ErrUint64OverflowsInt64".
Proof. exact Uint64ToInt64_spec. Qed.
Print Assumptions C31_Uint64ToInt64.

Theorem C31_Int64ToUint64 : forall a, in_s 64 a ->
  Int64ToUint64 a = ret_or_err (0 <=? a) a "ErrInt64UnderflowsUint64".
Proof. exact Int64ToUint64_spec. Qed.
Print Assumptions C31_Int64ToUint64.

Theorem C31_IntToUint32 : forall a, in_s 64 a -> IntToUint32 a = IntToUint32_spec_fn a.
Proof. exact IntToUint32_spec. Qed.
Print Assumptions C31_IntToUint32.

(* required fee = total hours / burn factor rounded up; it is the least f with
   f * burn >= hours; the remainder never underflows *)
Theorem C31_RequiredFee_ceil : forall h b, in_u 64 h -> 1 <= b < 2 ^ 32 ->
  RequiredFee h b = Val (ceil_div h b).
Proof. exact RequiredFee_ceil. Qed.
Print Assumptions C31_RequiredFee_ceil.

Theorem C31_ceil_div_least : forall h b, 0 <= h -> 1 <= b ->
  h <= ceil_div h b * b /\ (forall f, h <= f * b -> ceil_div h b <= f).
Proof. exact ceil_div_least. Qed.
Print Assumptions C31_ceil_div_least.

Theorem C31_RemainingHours : forall h b, in_u 64 h -> 1 <= b < 2 ^ 32 ->
  RemainingHours h b = Val (h - ceil_div h b) /\ 0 <= h - ceil_div h b <= h.
Proof. exact RemainingHours_spec. Qed.
Print Assumptions C31_RemainingHours.

Theorem C31_VerifyTransactionFeeForHours : forall hours fee b,
  in_u 64 hours -> in_u 64 fee -> 1 <= b < 2 ^ 32 ->
  VerifyTransactionFeeForHours hours fee b = Val (fee_verdict hours fee b).
Proof. exact VerifyTransactionFeeForHours_spec. Qed.
Print Assumptions C31_VerifyTransactionFeeForHours.

(* accrued hours = initial hours + floor(coins * elapsed / 3.6e9), with an error
   exactly when an intermediate or the final sum does not fit in 64 bits *)
Theorem C31_CoinHours : forall time coins hours t,
  in_u 64 time -> in_u 64 coins -> in_u 64 hours -> in_u 64 t ->
  UxOut_CoinHours time coins hours t = coinhours_spec time coins hours t.
Proof. exact CoinHours_spec. Qed.
Print Assumptions C31_CoinHours.

Theorem C31_CoinHours_error_iff : forall time coins hours t,
  in_u 64 time -> in_u 64 coins -> in_u 64 hours -> in_u 64 t -> time <= t ->
  let d := t - time in
  (exists h, UxOut_CoinHours time coins hours t = Val (h, None)) <->
  ((coins / 1000000) * d < 2 ^ 64 /\ (coins mod 1000000) * d < 2 ^ 64 /\
   coins * d / 1000000 < 2 ^ 64 /\ hours + earned coins d < 2 ^ 64).
Proof. exact CoinHours_ok_iff. Qed.
Print Assumptions C31_CoinHours_error_iff.

Theorem C31_CoinHours_value : forall time coins hours t h,
  in_u 64 time -> in_u 64 coins -> in_u 64 hours -> in_u 64 t -> time <= t ->
  UxOut_CoinHours time coins hours t = Val (h, None) ->
  h = hours + coins * (t - time) / 3600000000 /\ h < 2 ^ 64.
Proof. exact CoinHours_value. Qed.
Print Assumptions C31_CoinHours_value.

(* non-vacuity: a concrete point meeting the hypotheses with a non-trivial value *)
Example C31_example :
  UxOut_CoinHours 100 1000001 7 (100 + 3600 * 1000) = Val (7 + 1000, None) /\
  UxOut_CoinHours 0 1000001 0 18446744073709551615 = Val (0, E_sum).
Proof. split; vm_compute; reflexivity. Qed.
Print Assumptions C31_example.

(* ---- loops over slices of structs, regenerated from src/coin and src/util/fee
   (Gen/CoinLoops.v, Gen/FeeTxn.v; translator/loops.go). A slice argument is the
   list of the integer fields the function reads (named above each definition).
   zsum = the sum over Z. Lists of ANY length. The hour checks
   (UxArray.CoinHours, VerifyTransactionHoursSpending) are characterised in C03
   through the refinement theorems C03_*_is_translated. *)

(* txn.OutputHours(): the sum of the outputs' hours, an error exactly when it does not fit *)
Theorem C31_OutputHours : forall hs, Forall (in_u 64) hs ->
  Transaction_OutputHours hs = ret_or_err (zsum hs <? 2 ^ 64) (zsum hs) "Transaction output hours overflow".
Proof. exact OutputHours_spec. Qed.
Print Assumptions C31_OutputHours.

Theorem C31_UxArray_Coins : forall cs, Forall (in_u 64) cs ->
  UxArray_Coins cs = ret_or_err (zsum cs <? 2 ^ 64) (zsum cs) "UxArray.Coins addition overflow".
Proof. exact UxArray_Coins_spec. Qed.
Print Assumptions C31_UxArray_Coins.

(* coin.VerifyTransactionCoinsSpending: the first failing rule in the order of
   the code; it accepts exactly when neither sum overflows and they are equal *)
Theorem C31_VerifyTransactionCoinsSpending : forall ins outs,
  Forall (in_u 64) ins -> Forall (in_u 64) outs ->
  VerifyTransactionCoinsSpending ins outs = Val (coins_spending_verdict ins outs).
Proof. exact VerifyTransactionCoinsSpending_spec. Qed.
Print Assumptions C31_VerifyTransactionCoinsSpending.

Theorem C31_VerifyTransactionCoinsSpending_accepts_iff : forall ins outs,
  Forall (in_u 64) ins -> Forall (in_u 64) outs ->
  (VerifyTransactionCoinsSpending ins outs = Val None <->
   zsum ins < 2 ^ 64 /\ zsum outs < 2 ^ 64 /\ zsum ins = zsum outs).
Proof. exact VerifyTransactionCoinsSpending_accepts_iff. Qed.
Print Assumptions C31_VerifyTransactionCoinsSpending_accepts_iff.

(* fee.TransactionFee: input hours minus output hours, never below zero *)
Theorem C31_TransactionFee : forall outs T ins ih oh,
  UxArray_CoinHours ins T = Val (ih, None) -> Transaction_OutputHours outs = Val (oh, None) ->
  in_u 64 ih -> in_u 64 oh ->
  TransactionFee outs T ins =
    if ih <? oh then Val (0, Some "ErrTxnInsufficientCoinHours"%string) else Val (ih - oh, None).
Proof. exact TransactionFee_spec. Qed.
Print Assumptions C31_TransactionFee.

(* fee.VerifyTransactionFee: the fee rule on the true sum of the outputs' hours *)
Theorem C31_VerifyTransactionFee : forall outs f b, Forall (in_u 64) outs ->
  VerifyTransactionFee outs f b =
    if zsum outs <? 2 ^ 64 then VerifyTransactionFeeForHours (zsum outs) f b
    else Val (Some "Transaction output hours overflow"%string).
Proof. exact VerifyTransactionFee_spec. Qed.
Print Assumptions C31_VerifyTransactionFee.

(* coin.Transactions.TruncateBytesTo (Gen/CoinTruncate.v; an element of the list
   is what txns[i].Size() returned: (size, error)): it keeps the LONGEST prefix
   whose total size is <= the limit (sizes = sum over Z of the sizes), and
   returns the first Size() error with no transactions *)
Theorem C31_TruncateBytesTo : forall l size, in_u 32 size -> Forall size_ok l ->
  exists n, (n <= List.length l)%nat /\
    Transactions_TruncateBytesTo l size = Val (firstn n l, None) /\
    sizes (firstn n l) <= size /\
    ((n < List.length l)%nat -> size < sizes (firstn (S n) l)).
Proof. exact TruncateBytesTo_spec. Qed.
Print Assumptions C31_TruncateBytesTo.

Theorem C31_TruncateBytesTo_size_error : forall pre s e r size, in_u 32 size -> Forall size_ok pre ->
  sizes pre <= size ->
  Transactions_TruncateBytesTo (pre ++ (s, Some e) :: r) size = Val ([], Some e).
Proof. exact TruncateBytesTo_size_error. Qed.
Print Assumptions C31_TruncateBytesTo_size_error.

Example C31_loops_example :
  Transaction_OutputHours [5; 7; 9] = Val (21, None) /\
  Transaction_OutputHours [9223372036854775808; 9223372036854775808] = Val (0, Some "Transaction output hours overflow"%string) /\
  VerifyTransactionCoinsSpending [3000000; 2000000] [5000000] = Val None /\
  VerifyTransactionCoinsSpending [3000000; 2000000] [4999999] = Val (Some "Transactions may not destroy coins"%string) /\
  VerifyTransactionHoursSpending 3600100 [(100, 2000000, 7)] [2007] = Val None /\
  VerifyTransactionHoursSpending 3600100 [(100, 2000000, 7)] [2008] = Val (Some "Insufficient coin hours"%string) /\
  TransactionFee [1806] 3600100 [(100, 2000000, 7)] = Val (201, None) /\
  Transactions_TruncateBytesTo [(300, None); (400, None); (500, None)] 700 = Val ([(300, None); (400, None)], None).
Proof. repeat split; vm_compute; reflexivity. Qed.
Print Assumptions C31_loops_example.
