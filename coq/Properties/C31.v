(* C31 — Checked arithmetic, fee and coin-hour formulas are correct for all
   values. Statements only; each is closed by `exact` of a lemma proved against
   the Gallina regenerated from /repo (Gen/Mathutil.v, Gen/Fee.v, Gen/CoinHours.v). *)
From Sky Require Import Base.Uint Model.ArithSpec Gen.Mathutil Gen.Fee Gen.CoinHours
  Proofs.MathutilProofs Proofs.FeeProofs Proofs.CoinHoursProofs.
Open Scope Z_scope.

(* checked helpers: an error exactly when the mathematical result does not fit *)
Theorem C31_AddUint64 : forall a b, in_u 64 a -> in_u 64 b ->
  AddUint64 a b = ret_or_err (a + b <? 2 ^ 64) (a + b) "ErrUint64AddOverflow".
Proof. exact AddUint64_spec. Qed.
Print Assumptions C31_AddUint64.

Theorem C31_MultUint64 : forall a b, in_u 64 a -> in_u 64 b ->
  MultUint64 a b = ret_or_err (a * b <? 2 ^ 64) (a * b) "ErrUint64MultOverflow".
Proof. exact MultUint64_spec. Qed.
Print Assumptions C31_MultUint64.

Theorem C31_AddUint32 : forall a b, in_u 32 a -> in_u 32 b ->
  AddUint32 a b = ret_or_err (a + b <? 2 ^ 32) (a + b) "ErrUint32AddOverflow".
Proof. exact AddUint32_spec. Qed.
Print Assumptions C31_AddUint32.

Theorem C31_Uint64ToInt64 : forall a, in_u 64 a ->
  Uint64ToInt64 a = ret_or_err (a <? 2 ^ 63) a "ErrUint64OverflowsInt64".
Proof. exact Uint64ToInt64_spec. Qed.
Print Assumptions C31_Uint64ToInt64.

Theorem C31_Int64ToUint64 : forall a, in_s 64 a ->
  Int64ToUint64 a = ret_or_err (0 <=? a) a "ErrInt64UnderflowsUint64".
Proof. exact Int64ToUint64_spec. Qed.
Print Assumptions C31_Int64ToUint64.

Theorem C31_IntToUint32 : forall a, in_s 64 a -> IntToUint32 a = IntToUint32_spec_fn a.
Proof. exact IntToUint32_spec. Qed.
Print Assumptions C31_IntToUint32.

(* required fee = total hours / burn factor rounded up; it is the least f with
   f * burn >= hours; the remainder never underflows *)
Theorem C31_RequiredFee_ceil : forall h b, in_u 64 h -> 1 <= b < 2 ^ 32 ->
  RequiredFee h b = Val (ceil_div h b).
Proof. exact RequiredFee_ceil. Qed.
Print Assumptions C31_RequiredFee_ceil.

Theorem C31_ceil_div_least : forall h b, 0 <= h -> 1 <= b ->
  h <= ceil_div h b * b /\ (forall f, h <= f * b -> ceil_div h b <= f).
Proof. exact ceil_div_least. Qed.
Print Assumptions C31_ceil_div_least.

Theorem C31_RemainingHours : forall h b, in_u 64 h -> 1 <= b < 2 ^ 32 ->
  RemainingHours h b = Val (h - ceil_div h b) /\ 0 <= h - ceil_div h b <= h.
Proof. exact RemainingHours_spec. Qed.
Print Assumptions C31_RemainingHours.

Theorem C31_VerifyTransactionFeeForHours : forall hours fee b,
  in_u 64 hours -> in_u 64 fee -> 1 <= b < 2 ^ 32 ->
  VerifyTransactionFeeForHours hours fee b = Val (fee_verdict hours fee b).
Proof. exact VerifyTransactionFeeForHours_spec. Qed.
Print Assumptions C31_VerifyTransactionFeeForHours.

(* accrued hours = initial hours + floor(coins * elapsed / 3.6e9), with an error
   exactly when an intermediate or the final sum does not fit in 64 bits *)
Theorem C31_CoinHours : forall time coins hours t,
  in_u 64 time -> in_u 64 coins -> in_u 64 hours -> in_u 64 t ->
  UxOut_CoinHours time coins hours t = coinhours_spec time coins hours t.
Proof. exact CoinHours_spec. Qed.
Print Assumptions C31_CoinHours.

Theorem C31_CoinHours_error_iff : forall time coins hours t,
  in_u 64 time -> in_u 64 coins -> in_u 64 hours -> in_u 64 t -> time <= t ->
  let d := t - time in
  (exists h, UxOut_CoinHours time coins hours t = Val (h, None)) <->
  ((coins / 1000000) * d < 2 ^ 64 /\ (coins mod 1000000) * d < 2 ^ 64 /\
   coins * d / 1000000 < 2 ^ 64 /\ hours + earned coins d < 2 ^ 64).
Proof. exact CoinHours_ok_iff. Qed.
Print Assumptions C31_CoinHours_error_iff.

Theorem C31_CoinHours_value : forall time coins hours t h,
  in_u 64 time -> in_u 64 coins -> in_u 64 hours -> in_u 64 t -> time <= t ->
  UxOut_CoinHours time coins hours t = Val (h, None) ->
  h = hours + coins * (t - time) / 3600000000 /\ h < 2 ^ 64.
Proof. exact CoinHours_value. Qed.
Print Assumptions C31_CoinHours_value.

(* non-vacuity: a concrete point meeting the hypotheses with a non-trivial value *)
Example C31_example :
  UxOut_CoinHours 100 1000001 7 (100 + 3600 * 1000) = Val (7 + 1000, None) /\
  UxOut_CoinHours 0 1000001 0 18446744073709551615 = Val (0, E_sum).
Proof. split; vm_compute; reflexivity. Qed.
Print Assumptions C31_example.
