(* C12 — Spend construction is sound, complete and well formed.
   Statements only; proofs in Proofs/CreateProofs.v over Model/Create.v, which
   mirrors src/transaction/{params,choose,hours,create}.go (checked arithmetic =
   translated mathutil / fee code).  Premises: 64-bit amounts (Go types), the
   offered coins and hours sum below 2^64 (C01 bounds the coin supply), a
   validated burn factor. *)
From Sky Require Import Base.Uint Gen.Mathutil Gen.Fee Model.TxVerify Model.Create Proofs.CreateProofs.
From Coq Require Import Permutation.
Open Scope Z_scope.

(* automatic hours: the hours handed out sum exactly to the allotted amount *)
Theorem C12_distribute_sum : forall coins hours hs,
  Forall (in_u 64) coins -> in_u 64 hours ->
  distribute coins hours = Val (inr hs) ->
  zsum hs = hours /\ List.length hs = List.length coins.
Proof. exact distribute_sum. Qed.
Print Assumptions C12_distribute_sum.

(* create succeeds => inputs are offered outputs, each once; requested outputs
   are paid exactly (address, coins, and hours in manual mode); the rest of the
   coins goes in one change output to the change address (given, or the least
   address among the inputs); automatic hours sum to floor(f * remaining) with f
   the requested share factor or 1 (fallback), remaining computed before or after
   the extra change-carrying input; at least ceil(input hours / burn) is burned;
   no two outputs are identical; no zero-coin output *)
Theorem C12_create_sound : forall burn p uxb c,
  1 <= burn < 2 ^ 32 -> Forall ux_range uxb -> csum uxb < 2 ^ 64 -> hsum uxb < 2 ^ 64 ->
  Forall out_range (p_to p) ->
  create burn p uxb = Val (inr c) ->
  incl (c_ins c) uxb /\ NoDup (map u_hash (c_ins c)) /\ c_ins c <> [] /\
  exists req change,
    c_outs c = req ++ change /\
    Forall2 (fun o t => o_addr o = o_addr t /\ o_coins o = o_coins t /\
                        (p_type p = TManual -> o_hours o = o_hours t)) req (p_to p) /\
    (change = [] \/ exists ch, change = [ch] /\ 0 < o_coins ch /\
        Some (o_addr ch) = match p_change p with Some a => Some a | None => min_addr (c_ins c) end) /\
    ocsum (c_outs c) = csum (c_ins c) /\
    (p_type p = TAuto -> In (ohsum req) (allotted_candidates burn p (c_ins c))) /\
    ohsum (c_outs c) + ceil_div_z (hsum (c_ins c)) burn <= hsum (c_ins c) /\
    NoDup (c_outs c) /\ Forall (fun o => o_coins o <> 0) (c_outs c).
Proof. exact create_sound. Qed.
Print Assumptions C12_create_sound.

(* ... and the unsigned transaction passes the rule set of C09 (VerifyUnsigned) *)
Theorem C12_create_well_formed : forall burn p uxb c h,
  1 <= burn < 2 ^ 32 -> Forall ux_range uxb -> csum uxb < 2 ^ 64 -> hsum uxb < 2 ^ 64 ->
  Forall out_range (p_to p) ->
  create burn p uxb = Val (inr c) -> well_formed false (as_txn h c).
Proof. exact create_wf. Qed.
Print Assumptions C12_create_well_formed.

(* the choice of spends: sound ... *)
Theorem C12_choose_sound : forall strat burn uxa coins hours sp,
  1 <= burn < 2 ^ 32 -> Forall ux_range uxa -> csum uxa < 2 ^ 64 -> hsum uxa < 2 ^ 64 ->
  choose_spends strat burn uxa coins hours = Val (inr sp) ->
  sp <> [] /\ (exists rest, Permutation (sp ++ rest) uxa) /\
  coins <= csum sp /\ hours <= remaining_of burn (hsum sp).
Proof. exact choose_sound. Qed.
Print Assumptions C12_choose_sound.

(* ... and complete: it fails for lack of funds only when all offered outputs
   together do not cover the coins / the hours left after the fee *)
Theorem C12_choose_complete : forall strat burn uxa coins hours e,
  1 <= burn < 2 ^ 32 -> Forall ux_range uxa -> csum uxa < 2 ^ 64 -> hsum uxa < 2 ^ 64 ->
  choose_spends strat burn uxa coins hours = Val (inl e) ->
  (e = ErrInsufficientBalance -> csum uxa < coins) /\
  (e = ErrInsufficientHours -> coins <= csum uxa /\ remaining_of burn (hsum uxa) < hours).
Proof. exact choose_complete. Qed.
Print Assumptions C12_choose_complete.

(* Create itself fails with "balance / hours are not sufficient" only when the
   offered outputs cannot cover the requested coins / the hours left after the fee *)
Theorem C12_create_complete : forall burn p uxb e,
  1 <= burn < 2 ^ 32 -> Forall ux_range uxb -> csum uxb < 2 ^ 64 -> hsum uxb < 2 ^ 64 ->
  Forall out_range (p_to p) ->
  create burn p uxb = Val (inl e) ->
  (e = ErrInsufficientBalance -> csum uxb < ocsum (p_to p)) /\
  (e = ErrInsufficientHours -> ocsum (p_to p) <= csum uxb /\ remaining_of burn (hsum uxb) < ohsum (p_to p)).
Proof. exact create_complete. Qed.
Print Assumptions C12_create_complete.

(* non-vacuity, and the F3 shape: 1 input of 2 coins / 100 h, destination
   (b, 1 coin, 45 h), change address b: the change output would equal the
   requested output; create refuses with a user-level error *)
Example C12_example :
  let uxb := [mk_ux 1 7 1 2000000 100 100 false] in
  let p := mk_params TManual MEmpty None [mk_out 2 1000000 45] (Some 2) in
  let p' := mk_params TManual MEmpty None [mk_out 2 1000000 40] (Some 2) in
  create 10 p uxb = Val (inl ErrChangeDuplicatesReceiver) /\
  create 10 p' uxb = Val (inr (mk_created uxb [mk_out 2 1000000 40; mk_out 2 1000000 50])) /\
  sound_b 10 p' uxb (mk_created uxb [mk_out 2 1000000 40; mk_out 2 1000000 50]) = true.
Proof. vm_compute. repeat split; reflexivity. Qed.
Print Assumptions C12_example.
