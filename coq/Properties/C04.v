(* C04 — A block is appended only if it correctly extends the signed chain;
   rejected blocks leave everything unchanged. Statements only.
   The model mirrors the code AFTER the repair of finding F1 (ExecuteBlock no
   longer overwrites PrevHash): the block is verified and stored as submitted,
   so `chain s' = b :: chain s` says the stored header is the signed header. *)
From Sky Require Import Base.Uint Model.Ledger Model.LedgerSpec Model.LedgerObs Model.LedgerReplay
  Proofs.LedgerBasics Proofs.LedgerProofs Proofs.LedgerAppend Proofs.LedgerArb
  Proofs.LedgerExample.
Open Scope Z_scope.

(* accepted => signed, seq = head+1, later time, parent = head hash, body hash
   matches, checksum matches, not a second genesis, new header hash, valid
   transactions; and the stored block is the submitted block *)
Theorem C04_append_sound : forall s b s', step s (ExecBlock b) = (s', Accepted) ->
  exists head rest,
    chain s = head :: rest /\
    b_sig_ok b = true /\
    h_seq (b_head b) = wrap 64 (h_seq (b_head head) + 1) /\
    h_time (b_head head) < h_time (b_head b) /\
    h_prev (b_head b) = b_hash head /\
    b_body_actual b = h_body (b_head b) /\
    h_uxhash (b_head b) = xorsum s /\
    (forall g, genesis_of (chain s) = Some g -> b_hash g <> b_hash b) /\
    ~ In (b_hash b) (map b_hash (chain s)) /\
    process_txns (utxo s) head (b_txns b) = Pass /\
    chain s' = b :: chain s.
Proof. exact append_sound. Qed.
Print Assumptions C04_append_sound.

(* conversely these conditions are all that is required *)
Theorem C04_append_complete : forall s b head rest,
  chain s = head :: rest ->
  b_sig_ok b = true ->
  (forall g, genesis_of (chain s) = Some g -> b_hash g <> b_hash b) ->
  h_seq (b_head b) = wrap 64 (h_seq (b_head head) + 1) ->
  h_time (b_head head) < h_time (b_head b) ->
  h_prev (b_head b) = b_hash head ->
  b_body_actual b = h_body (b_head b) ->
  process_txns (utxo s) head (b_txns b) = Pass ->
  h_uxhash (b_head b) = xorsum s ->
  ~ In (b_hash b) (map b_hash (chain s)) ->
  exists s', step s (ExecBlock b) = (s', Accepted).
Proof. exact append_complete. Qed.
Print Assumptions C04_append_complete.

(* any rejected (or crashing) op leaves chain, unspent set and checksum exactly as they were *)
Theorem C04_reject_noop : forall s o s' out, step s o = (s', out) -> out <> Accepted -> s' = s.
Proof. exact reject_noop. Qed.
Print Assumptions C04_reject_noop.

(* a node starts on an empty database (appends its configured genesis block) only
   if the configured genesis signature verifies; otherwise nothing is stored *)
Theorem C04_start_needs_signature : forall g s, start_node g = Some s -> b_sig_ok g = true /\ s = init_state g.
Proof. exact start_needs_signature. Qed.
Print Assumptions C04_start_needs_signature.

Theorem C04_start_refused : forall g, b_sig_ok g = false -> start_node g = None.
Proof. exact start_refused. Qed.
Print Assumptions C04_start_refused.

(* a second genesis is refused *)
Theorem C04_second_genesis_refused : forall s b g, genesis_of (chain s) = Some g -> b_hash b = b_hash g ->
  snd (step s (ExecBlock b)) <> Accepted.
Proof. exact second_genesis_refused. Qed.
Print Assumptions C04_second_genesis_refused.

(* after any history the stored chain is linked block to block (signature, seq,
   time, parent hash, body hash) down to the genesis block *)
Theorem C04_chain_linked : forall g ops,
  let s := run (init_state g) ops in
  linked (chain s) /\ genesis_of (chain s) = Some g.
Proof. exact chain_linked. Qed.
Print Assumptions C04_chain_linked.

(* block execution is exactly: header-level checks before the transactions,
   processTransactions, header-level checks after (checksum, duplicate hash),
   Unspents.ProcessBlock — the pieces compared with the implementation by the
   header-level (C04) and transaction-level (C01/C02) correspondences *)
Theorem C04_exec_block_pieces : forall s b, exec_block s b =
  match chain s with
  | [] => (s, Rejected EOther)
  | head :: _ =>
      match hdr_pre s head b ;; process_txns (utxo s) head (b_txns b) ;; hdr_post s b with
      | Fail e => (s, Rejected e)
      | Boom => (s, Crashed)
      | Pass =>
          match get_array (all_ins (b_txns b)) (utxo s) with
          | None => (s, Rejected EUnspentMissing)
          | Some spent =>
              if insert_okb s b then (apply_block s b spent, Accepted) else (s, Rejected EInsertTwice)
          end
      end
  end.
Proof. exact exec_block_pieces. Qed.
Print Assumptions C04_exec_block_pieces.

(* ---- ARBITRATING node: the same header-level rule; the stored block has the
   offered (signed) header and a body that is a part of the offered body *)
Theorem C04_append_sound_arb : forall s b s', step_arb s (ExecBlock b) = (s', Accepted) ->
  exists head rest stored,
    chain s = head :: rest /\
    b_sig_ok b = true /\
    h_seq (b_head b) = wrap 64 (h_seq (b_head head) + 1) /\
    h_time (b_head head) < h_time (b_head b) /\
    h_prev (b_head b) = b_hash head /\
    b_body_actual b = h_body (b_head b) /\
    h_uxhash (b_head b) = xorsum s /\
    (forall g, genesis_of (chain s) = Some g -> b_hash g <> b_hash b) /\
    ~ In (b_hash b) (map b_hash (chain s)) /\
    chain s' = stored :: chain s /\
    b_head stored = b_head b /\ b_hash stored = b_hash b /\ b_sig_ok stored = b_sig_ok b /\
    incl (b_txns stored) (b_txns b) /\ txns_ok (utxo s) head (b_txns stored).
Proof. exact append_sound_arb. Qed.
Print Assumptions C04_append_sound_arb.

Theorem C04_reject_noop_arb : forall s o s' out, step_arb s o = (s', out) -> out <> Accepted -> s' = s.
Proof. exact reject_noop_arb. Qed.
Print Assumptions C04_reject_noop_arb.

(* non-vacuity: block 1 is appended; a validly signed block naming another
   parent (the F1 input) and a resubmitted genesis block are refused *)
Example C04_example :
  snd (step (init_state ex_g) (ExecBlock ex_b1)) = Accepted /\
  snd (step (run (init_state ex_g) [ExecBlock ex_b1]) (ExecBlock ex_b3)) = Rejected EPrevHash /\
  snd (step (run (init_state ex_g) [ExecBlock ex_b1]) (ExecBlock ex_g)) = Rejected EGenesis /\
  map b_hash (chain (run (init_state ex_g) ex_ops)) = [7; 3].
Proof. vm_compute. repeat split. Qed.
Print Assumptions C04_example.

(* ---- the model's header checks ARE the code (translator tie; proof in
   Proofs/HeaderRefine.v): verify_header — the seq / time / parent-hash /
   body-hash part of exec_block that C04_append_sound / C04_append_complete rest
   on — equals, for ALL inputs, the Gallina regenerated from
   Blockchain.verifyBlockHeader (src/visor/blockchain.go) on every run
   (Gen/HeaderChecks.v), called with the head's and the block's BkSeq / Time, the
   two hash comparisons as booleans (hashes are ids in the model) and no error
   from bc.Head; the translated function's error message is classified into the
   model's enum (header_err_class). Changing a comparison, the order of the
   checks or the +1 in verifyBlockHeader breaks a proof obligation here. *)
From Sky Require Gen.HeaderChecks.
From Sky Require Import Proofs.LedgerRefine Proofs.HeaderRefine.

Theorem C04_header_checks_is_translated : forall head b,
  verify_header head b =
  chk_of header_err_class
    (HeaderChecks.Blockchain_verifyBlockHeader None
       (h_prev (b_head b) =? b_hash head) (b_body_actual b =? h_body (b_head b))
       (h_seq (b_head b)) (h_seq (b_head head)) (h_time (b_head b)) (h_time (b_head head))).
Proof. exact verify_header_refines. Qed.
Print Assumptions C04_header_checks_is_translated.
