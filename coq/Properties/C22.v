(* C22 — The wire protocol frames and parses any byte stream correctly.
   Statements only. Model: Model/Framing.v (`run` = gnet readLoop + decodeData
   over a persistent connection buffer, `convert` = convertToMessage). The model
   is compared with the running implementation on every check (Corr/C22_corr.v). *)
From Sky Require Import Base.Uint Model.Framing Proofs.FramingProofs.
From Coq Require Import List.
Import ListNotations.
Open Scope Z_scope.

(* For any sequence of frames with acceptable lengths and ANY way the byte
   stream is split into reads (any list of chunks whose concatenation is the
   stream), the read loop delivers exactly those frames, in order, and the
   connection buffer is empty at the end. *)
Theorem C22_framing_correct : forall max (fs : list bytes) (chunks : list bytes),
  Forall (frame_ok max) fs ->
  concat chunks = concat (map enc_frame fs) ->
  run max [] chunks = (fs, [], Running).
Proof. exact framing_correct. Qed.
Print Assumptions C22_framing_correct.

(* The same for ARBITRARY byte streams: what is delivered does not depend on the
   chunking — it is what the whole stream contains (`parse`), the unfinished
   rest stays buffered; a stream containing an invalid length always ends in a
   disconnect, only frames in front of it can have been delivered. *)
Theorem C22_chunking_independent : forall max (chunks : list bytes),
  match parse max (concat chunks) with
  | (fs, Wait rest) => run max [] chunks = (fs, rest, Running)
  | (fs, Bad) => exists d b fs2, run max [] chunks = (d, b, Disconnected InvalidMessageLength) /\ fs = d ++ fs2
  | (_, NoFuel) => False
  end.
Proof. exact chunking_independent. Qed.
Print Assumptions C22_chunking_independent.

(* A length prefix below the minimum (4) or above the configured maximum,
   followed by at least one more byte, after any well-formed frames, under any
   chunking: disconnect with "Invalid message length". *)
Theorem C22_bad_length_disconnects : forall max (fs : list bytes) (h t : bytes) (chunks : list bytes),
  Forall (frame_ok max) fs ->
  length h = 4%nat -> (le_val h < MIN_LENGTH \/ max < le_val h) -> t <> [] ->
  concat chunks = concat (map enc_frame fs) ++ h ++ t ->
  exists d b fs2, run max [] chunks = (d, b, Disconnected InvalidMessageLength) /\ fs = d ++ fs2.
Proof. exact bad_length_disconnects. Qed.
Print Assumptions C22_bad_length_disconnects.

Theorem C22_bad_length_disconnects_now : forall max (buf : bytes),
  4 < blen buf -> (le_val (firstn 4 buf) < MIN_LENGTH \/ max < le_val (firstn 4 buf)) ->
  decode_data max buf = (buf, [], Disconnected InvalidMessageLength).
Proof. exact bad_length_disconnects_now. Qed.
Print Assumptions C22_bad_length_disconnects_now.

(* the loop of decodeData terminates within `length buffer` iterations *)
Theorem C22_decode_terminates : forall max (s : bytes), snd (decode_data max s) <> OutOfFuel.
Proof. exact decode_never_out_of_fuel. Qed.
Print Assumptions C22_decode_terminates.

(* convertToMessage: never panics (a decoder panic is recovered), and yields a
   message exactly when the id is registered and the decoder used the whole body *)
Theorem C22_convert_total : forall table dec (f : bytes), convert table dec f <> Panic.
Proof. exact convert_total. Qed.
Print Assumptions C22_convert_total.

Theorem C22_convert_ok_iff : forall table dec (f : bytes) m,
  convert table dec f = Val (inl m) <->
  (4 <= blen f /\ id_known table (firstn 4 f) = true /\ dec = DecOk (blen (skipn 4 f)) /\ m = (firstn 4 f, skipn 4 f)).
Proof. exact convert_ok_iff. Qed.
Print Assumptions C22_convert_ok_iff.

Theorem C22_convert_unknown_id : forall table dec (f : bytes),
  4 <= blen f -> id_known table (firstn 4 f) = false -> convert table dec f = Val (inr UnknownMessage).
Proof. exact convert_unknown_id. Qed.
Print Assumptions C22_convert_unknown_id.

Theorem C22_convert_undecodable : forall table dec (f : bytes),
  4 <= blen f -> id_known table (firstn 4 f) = true -> (dec = DecErr \/ dec = DecPanic) ->
  convert table dec f = Val (inr MalformedMessage).
Proof. exact convert_undecodable. Qed.
Print Assumptions C22_convert_undecodable.

Theorem C22_convert_trailing : forall table used (f : bytes),
  4 <= blen f -> id_known table (firstn 4 f) = true -> used <> blen (skipn 4 f) ->
  convert table (DecOk used) f = Val (inr MessageDecodeUnderflow).
Proof. exact convert_trailing. Qed.
Print Assumptions C22_convert_trailing.

Theorem C22_convert_truncated : forall table dec (f : bytes),
  blen f < 4 -> convert table dec f = Val (inr TruncatedMessageID).
Proof. exact convert_truncated. Qed.
Print Assumptions C22_convert_truncated.

(* end to end: a sequence of well-formed messages (registered id, body the
   decoder consumes exactly), any chunking: exactly that sequence is received *)
Theorem C22_receive_correct : forall table max (msgs : list (bytes * bytes)) (chunks : list bytes),
  Forall (msg_ok table max) msgs ->
  concat chunks = concat (map (fun m => enc_frame (msg_frame m)) msgs) ->
  exists frames, run max [] chunks = (frames, [], Running) /\
    frames = map msg_frame msgs /\
    receive table (combine frames (map exact_dec msgs)) = Val (msgs, None).
Proof. exact receive_correct. Qed.
Print Assumptions C22_receive_correct.

(* non-vacuity, and the defect F17 of the tree before the fix: frame "ABCDE"
   followed, in the same read, by 6 of the 10 bytes of the next frame. The
   code as it was (`decode_data_f17`: `return [][]byte{}, nil` when the next
   frame is incomplete) consumed the first frame and returned nothing. *)
Example C22_example :
  let s1 := enc_frame [65; 66; 67; 68; 69] in
  let s2 := enc_frame [70; 71; 72; 73; 74; 75] in
  run 1024 [] [s1 ++ firstn 6 s2; skipn 6 s2] = ([[65; 66; 67; 68; 69]; [70; 71; 72; 73; 74; 75]], [], Running) /\
  run_gen false 1024 [] [s1 ++ firstn 6 s2; skipn 6 s2] = ([[70; 71; 72; 73; 74; 75]], [], Running) /\
  run 8 [] [[9; 0; 0; 0; 1]] = ([], [9; 0; 0; 0; 1], Disconnected InvalidMessageLength).
Proof. repeat split; vm_compute; reflexivity. Qed.
Print Assumptions C22_example.
