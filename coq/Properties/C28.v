(* C28 — No API request can crash the node or the request handler.  PARTIAL:
   only the decision logic modelled in Model/ApiTotal.v is proved total; the
   rest of the API is explored differentially by harness/c28 (a real node
   behind the real mux), see the evidence's coverage.explanation.
   Statements only. *)
From Sky Require Import Base.Uint Model.ApiTotal Proofs.ApiTotalProofs.
Open Scope Z_scope.

(* Visor.VerifyTxnVerbose never panics, whatever the database lookups return
   (in particular when the transaction is not in historydb: the nil pointer of F6) *)
Theorem C28_vtv_total_partial : forall f, vtv f <> Panic.
Proof. exact vtv_total. Qed.
Print Assumptions C28_vtv_total_partial.

(* "verifying any encoded transaction returns a verdict": once the request is
   decoded, verifyTxnHandler answers 200, 422 or 500 *)
Theorem C28_verify_returns_verdict_partial : forall f fz, exists s, verify_status f fz = Val s /\ is_verdict s = true.
Proof. exact verify_status_verdict. Qed.
Print Assumptions C28_verify_returns_verdict_partial.

(* F6 (repaired): the code as it was panicked exactly on a new transaction
   whose inputs are all known and one of which is already spent *)
Theorem C28_vtv_unfixed_total_refuted : exists f, vtv_unfixed f = Panic.
Proof. exact vtv_unfixed_total_refuted. Qed.
Print Assumptions C28_vtv_unfixed_total_refuted.

Theorem C28_vtv_unfixed_panics_iff : forall f,
  vtv_unfixed f = Panic <->
  (f_head_err f = false /\ f_unspent_dberr f = false /\ all_unspent (f_inputs f) = false /\
   f_hist_dberr f = false /\ all_in_history (f_inputs f) = true /\ f_hist_txn f = LNil).
Proof. exact vtv_unfixed_panics_iff. Qed.
Print Assumptions C28_vtv_unfixed_panics_iff.

(* ... and there the repaired code reports a double spend *)
Theorem C28_vtv_double_spend_verdict : forall f,
  f_head_err f = false -> f_unspent_dberr f = false -> all_unspent (f_inputs f) = false ->
  f_hist_dberr f = false -> all_in_history (f_inputs f) = true -> f_hist_txn f = LNil ->
  vtv f = Val {| o_inputs := false; o_confirmed := false; o_err := Some EHard |}.
Proof. exact vtv_double_spend_verdict. Qed.
Print Assumptions C28_vtv_double_spend_verdict.

(* when the verdict is "valid" *)
Theorem C28_vtv_no_error_iff : forall f o, vtv f = Val o ->
  (o_err o = None <->
   f_head_err f = false /\ f_unspent_dberr f = false /\
   ((all_unspent (f_inputs f) = true /\ f_user f = true /\ f_soft f = true /\ f_hard f = true /\
     (nonempty (f_inputs f) = true -> f_head_time f <> 0 -> f_inputs_err f = false)) \/
    (all_unspent (f_inputs f) = false /\ f_hist_dberr f = false /\ all_in_history (f_inputs f) = true /\
     exists seq, f_hist_txn f = LFound seq /\
       (seq <= 0 \/ exists t, f_prev_block f = LFound t /\ (t <> 0 -> f_inputs_err f = false))))).
Proof. exact vtv_no_error_iff. Qed.
Print Assumptions C28_vtv_no_error_iff.

(* GetLastBlocks: the uint64 -> int conversion arithmetic is total and bounded
   for every 64-bit head and num ... *)
Theorem C28_last_blocks_bounds_partial : forall b head num, in_u 64 head -> in_u 64 num ->
  0 <= last_blocks_count b head num <= head + 1.
Proof. exact last_blocks_count_bounds. Qed.
Print Assumptions C28_last_blocks_bounds_partial.

(* ... and is "the last min(num, head+1) blocks" in the range the API admits *)
Theorem C28_last_blocks_spec_partial : forall head num, 0 <= head < 2 ^ 62 -> 0 < num < 2 ^ 62 ->
  last_blocks_count true head num = Z.min num (head + 1).
Proof. exact last_blocks_count_spec. Qed.
Print Assumptions C28_last_blocks_spec_partial.

(* non-vacuity: the F6 situation is a state of the model, and the repaired model answers 422 there *)
Example C28_example_double_spend :
  verify_status {| f_head_err := false; f_head_time := 1426562714;
                   f_inputs := [{| in_unspent := false; in_history := true |}];
                   f_unspent_dberr := false; f_hist_dberr := false; f_hist_txn := LNil; f_prev_block := LNil;
                   f_user := true; f_soft := true; f_hard := true; f_inputs_err := false |} false = Val 422.
Proof. vm_compute. reflexivity. Qed.
Print Assumptions C28_example_double_spend.
