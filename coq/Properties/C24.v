(* C24 — Connection bookkeeping matches the set of live connections.
   Statements only, over the executable model Model/Conns.v of
   /repo/src/daemon/connections.go (tied to the code by the correspondence check
   of every run). `live s a c` = connection a is in the conns map with fields c.
   Premise of the history theorems: the ids gnet hands to `connected` are not ids
   of connections currently held (fresh_run_b); C24_counter_ids_fresh shows that
   ids drawn from a counter (never repeated) satisfy it. *)
From Sky Require Import Base.Uint Model.Conns Proofs.ConnsProofs.
Open Scope Z_scope.

(* after ANY operation list: ipCounts = count per ip of the live connections,
   mirrors = {(ip, mirror) -> listen port of the introduced connections},
   gnetIDs and listenAddrs are exactly derived from the live connections, no
   empty inner map / address list is kept *)
Theorem C24_maps_describe_live : forall ops s,
  run init ops = Val s -> fresh_run_b init ops = true ->
  (forall ip, getz ip (ipc s) = count_ip ip (conns s)) /\
  (forall m ip p, mirror_lookup s m ip = Some p <->
     exists port c, live s (ip, port) c /\ c_state c = SIntroduced /\ c_mirror c = m /\ c_lport c = p) /\
  (forall id a, aget Z.eqb id (gids s) = Some a <->
     exists c, live s a c /\ c_state c <> SPending /\ c_gid c = id) /\
  (forall k a, In a (getl k (laddrs s)) <-> exists c, live s a c /\ listen_key a c = Some k) /\
  (forall k, NoDup (getl k (laddrs s))) /\
  Forall (fun e : Z * list (Z * Z) => snd e <> []) (mirrors s) /\
  Forall (fun e : addr * list addr => snd e <> []) (laddrs s) /\
  NoDup (map fst (conns s)).
Proof. exact maps_describe_live. Qed.
Print Assumptions C24_maps_describe_live.

(* a connection is in the introduced state after a step only if it already was,
   or the step is a successful `introduced` on that connection in the connected
   state, called with the connection's own gnet id — for EVERY state s *)
Theorem C24_introduced_only_from_connected : forall s o s' e a c',
  step s o = Val (s', e) -> live s' a c' -> c_state c' = SIntroduced ->
  (exists c, live s a c /\ c_state c = SIntroduced /\ c_gid c = c_gid c') \/
  (exists id m p c, o = Introduced a id m p /\ e = OK /\ live s a c /\
                    c_state c = SConnected /\ c_gid c = id /\ c_gid c' = id).
Proof. exact introduced_only_from_connected. Qed.
Print Assumptions C24_introduced_only_from_connected.

(* two introduced connections never share an IP and mirror value *)
Theorem C24_mirror_unique : forall ops s a1 a2 c1 c2,
  run init ops = Val s -> fresh_run_b init ops = true ->
  live s a1 c1 -> live s a2 c2 ->
  c_state c1 = SIntroduced -> c_state c2 = SIntroduced ->
  fst a1 = fst a2 -> c_mirror c1 = c_mirror c2 -> a1 = a2.
Proof. exact mirror_unique. Qed.
Print Assumptions C24_mirror_unique.

(* no live connection => every map is (observationally: IPCount = 0) empty; and
   removing every connection — one `remove` per live connection — always
   succeeds and reaches such a state *)
Theorem C24_remove_all_empty : forall ops s,
  run init ops = Val s -> fresh_run_b init ops = true ->
  (conns s = [] ->
     conns s = [] /\ mirrors s = [] /\ gids s = [] /\ laddrs s = [] /\ forall ip, getz ip (ipc s) = 0) /\
  exists s', run s (remove_all_ops s) = Val s' /\
     conns s' = [] /\ mirrors s' = [] /\ gids s' = [] /\ laddrs s' = [] /\ forall ip, getz ip (ipc s') = 0.
Proof. exact remove_all_empty. Qed.
Print Assumptions C24_remove_all_empty.

(* no operation panics (updateMirror's "failed, but shouldn't" is unreachable), in any state *)
Theorem C24_no_panic : forall s o, step s o <> Panic.
Proof. exact step_no_panic. Qed.
Print Assumptions C24_no_panic.

(* ids from gnet's counter are fresh *)
Theorem C24_counter_ids_fresh : forall ops, NoDup (connected_ids ops) -> fresh_run_b init ops = true.
Proof. exact counter_ids_fresh. Qed.
Print Assumptions C24_counter_ids_fresh.

(* non-vacuity: a fresh history with two introduced connections from one IP
   (mirrors 0 and 1), a pending ip:0 connection, and a removal; F5's history
   (remove of the never-introduced 1.0.0.1:0) keeps mirrors[0][ip] *)
Example C24_example :
  let ops := [Pending (16777217, 0); Connected (16777217, 6000) 1; Introduced (16777217, 6000) 1 0 7000;
              Connected (16777217, 6001) 2; Introduced (16777217, 6001) 2 1 0; Remove (16777217, 0) 0] in
  fresh_run_b init ops = true /\
  exists s, run init ops = Val s /\ mirror_lookup s 0 16777217 = Some 7000 /\
            mirror_lookup s 1 16777217 = Some 0 /\ getz 16777217 (ipc s) = 2 /\
            laddrs s = [((16777217, 7000), [(16777217, 6000)])] /\ inv_b s = true.
Proof. split; [vm_compute; reflexivity|]. eexists. split; [vm_compute; reflexivity|]. vm_compute. repeat split. Qed.
Print Assumptions C24_example.
