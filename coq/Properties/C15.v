(* C15 — Base58 and address encodings are exact and canonical. Statements only.
   Byte strings and text are lists of byte values (Model/Base58.v):
     b58enc bs = one '1' per leading zero byte ++ base-58 digits of the
                 big-endian integer (recode 256 58), through the alphabet;
     b58dec s  = Err on "" or on a byte outside the alphabet, else the inverse. *)
From Sky Require Import Base.Uint Model.Base58 Proofs.Base58Proofs.
Open Scope Z_scope.

(* the digit strings are what the big-integer definition says *)
Theorem C15_digits_value : forall b, 2 <= b -> forall v, 0 <= v -> horner b (digits b v) = v.
Proof. exact horner_digits. Qed.
Print Assumptions C15_digits_value.

Theorem C15_digits_canonical : forall b, 2 <= b -> forall ds, Forall (digit b) ds -> nz_head ds ->
  digits b (horner b ds) = ds.
Proof. exact digits_horner. Qed.
Print Assumptions C15_digits_canonical.

(* decoding an encoding gives the bytes back, for every non-empty byte string
   (Encode([]) = "" and Decode("") is an error: C15_empty) *)
Theorem C15_dec_enc : forall bs, Forall is_byte bs -> bs <> [] -> b58dec (b58enc bs) = Ok bs.
Proof. exact dec_enc. Qed.
Print Assumptions C15_dec_enc.

(* canonical: whatever decodes is the encoding of what it decodes to, so a text
   the encoder could not have produced does not decode *)
Theorem C15_enc_dec : forall s bs, b58dec s = Ok bs -> b58enc bs = s.
Proof. exact enc_dec. Qed.
Print Assumptions C15_enc_dec.

Theorem C15_dec_fails_iff : forall s,
  (exists e, b58dec s = Err e) <-> s = [] \/ Exists (fun c => ~ in_alphabet c) s.
Proof. exact dec_fails_iff. Qed.
Print Assumptions C15_dec_fails_iff.

Theorem C15_dec_total_on_alphabet : forall s, s <> [] -> Forall in_alphabet s ->
  exists bs, b58dec s = Ok bs /\ b58enc bs = s.
Proof. exact dec_total_on_alphabet. Qed.
Print Assumptions C15_dec_total_on_alphabet.

Theorem C15_dec_bytes : forall s bs, b58dec s = Ok bs -> Forall is_byte bs.
Proof. exact dec_bytes. Qed.
Print Assumptions C15_dec_bytes.

Theorem C15_enc_injective : forall a b, Forall is_byte a -> Forall is_byte b ->
  b58enc a = b58enc b -> a = b.
Proof. exact enc_injective. Qed.
Print Assumptions C15_enc_injective.

Theorem C15_empty : b58enc [] = [] /\ b58dec [] = Err "ErrInvalidString".
Proof. split; reflexivity. Qed.
Print Assumptions C15_empty.

(* the encoder's buffer estimate n*138/100+1 digits holds every n-byte value
   (an under-estimate would index out of range: mutant 136/100 panics) *)
Theorem C15_buffer_enough : forall n, 0 <= n -> 256 ^ n < 58 ^ (n * 138 / 100 + 1).
Proof. exact buffer_enough. Qed.
Print Assumptions C15_buffer_enough.

(* addresses; sha256 is any function giving at least 4 bytes (premises) *)
Theorem C15_addr_iff : forall sha : list Z -> list Z,
  (forall m, (4 <= List.length (sha m))%nat) -> (forall m, Forall is_byte (sha m)) ->
  forall s a,
  addr_decode sha s = Ok a <-> (s = addr_encode sha a /\ a_version a = 0 /\ wf_address a).
Proof. exact addr_iff. Qed.
Print Assumptions C15_addr_iff.

Theorem C15_addr_one_to_one : forall sha : list Z -> list Z,
  (forall m, (4 <= List.length (sha m))%nat) -> (forall m, Forall is_byte (sha m)) ->
  forall a a', wf_address a -> wf_address a' -> a_version a = 0 -> a_version a' = 0 ->
  addr_encode sha a = addr_encode sha a' -> a = a'.
Proof. exact addr_encode_injective. Qed.
Print Assumptions C15_addr_one_to_one.

(* non-vacuity *)
Example C15_example :
  b58enc [0; 0; 1; 2; 3] = bytes_of_string "11Ldp" /\
  b58dec (bytes_of_string "11Ldp") = Ok [0; 0; 1; 2; 3] /\
  b58dec (bytes_of_string "1l") = Err "ErrInvalidChar" /\
  addr_decode (fun _ => [7; 7; 7; 7; 9])
    (addr_encode (fun _ => [7; 7; 7; 7; 9]) {| a_version := 0; a_key := repeat 5 20 |})
  = Ok {| a_version := 0; a_key := repeat 5 20 |}.
Proof. repeat split; vm_compute; reflexivity. Qed.
Print Assumptions C15_example.
