(* C30 — Coin amount text conversion is exact. Statements only.
   Model/DropletText.v: text = list of byte values;
     new_from_string  what decimal.NewFromString (vendored shopspring/decimal)
                      accepts: Some (unscaled integer v, exponent e), value v*10^e;
     from_string      droplet.FromString;   to_string  droplet.ToString;
     decimal_text s v e   declarative syntax: [+-]digits[.digits][(e|E)[+-]digits]
                      (with the library's quirks, see Model). *)
From Sky Require Import Base.Uint Model.Base58 Model.DropletText Proofs.DropletTextProofs.
Open Scope Z_scope.

(* ToString then FromString returns the amount, for every representable amount *)
Theorem C30_to_from : forall n, 0 <= n <= MaxInt64 ->
  exists s, to_string n = Ok s /\ from_string s = Ok n.
Proof. exact to_from. Qed.
Print Assumptions C30_to_from.

Theorem C30_to_string_err_iff : forall n, (exists e, to_string n = Err e) <-> MaxInt64 < n.
Proof. exact to_string_err_iff. Qed.
Print Assumptions C30_to_string_err_iff.

(* FromString accepts exactly the texts that read as a non-negative decimal
   v*10^e with at most six decimals (e >= -6) whose droplet value v*10^(e+6)
   fits in int64, and returns exactly that value *)
Theorem C30_from_iff : forall s w,
  from_string s = Ok w <->
  exists v e, new_from_string s = Some (v, e) /\ 0 <= v /\ -6 <= e /\
              w = v * 10 ^ (e + 6) /\ w <= MaxInt64.
Proof. exact from_iff. Qed.
Print Assumptions C30_from_iff.

Theorem C30_from_range : forall s w, from_string s = Ok w -> 0 <= w <= MaxInt64.
Proof. exact from_range. Qed.
Print Assumptions C30_from_range.

(* what the parser accepts, declaratively, with its value and exponent *)
Theorem C30_syntax_iff : forall s v e, new_from_string s = Some (v, e) <-> decimal_text s v e.
Proof. exact new_from_string_iff. Qed.
Print Assumptions C30_syntax_iff.

Theorem C30_from_error_kinds : forall s e, from_string s = Err e ->
  In e ["parse"; "ErrNegativeValue"; "ErrTooManyDecimals"; "ErrTooLarge"]%string.
Proof. exact from_error_kinds. Qed.
Print Assumptions C30_from_error_kinds.

(* cost: the only power of ten the call makes the decimal library build is
   10^k with k <= 18 (before the fix of F13, k went up to 2^31 + 5) *)
Theorem C30_pow10_bounded : forall s k, pow10_arg s = Some k -> 0 < k <= 18.
Proof. exact pow10_bounded. Qed.
Print Assumptions C30_pow10_bounded.

(* non-vacuity *)
Example C30_example :
  from_string (bytes_of_string "123.000456") = Ok 123000456 /\
  to_string 123000456 = Ok (bytes_of_string "123.000456") /\
  from_string (bytes_of_string "9223372036854.775807") = Ok MaxInt64 /\
  from_string (bytes_of_string "9223372036854.775808") = Err "ErrTooLarge" /\
  from_string (bytes_of_string "0.0000001") = Err "ErrTooManyDecimals" /\
  from_string (bytes_of_string "-1") = Err "ErrNegativeValue" /\
  from_string (bytes_of_string "1e99999999") = Err "ErrTooLarge" /\
  from_string (bytes_of_string "0e99999999") = Ok 0.
Proof. repeat split; vm_compute; reflexivity. Qed.
Print Assumptions C30_example.
