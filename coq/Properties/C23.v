(* C23 — Outgoing peer messages always fit the size limit and contain the
   longest fitting prefix of the requested items, capped by the item limit.
   Statements only. Model: Model/Truncate.v (`new_message k sizes max` = number
   of items kept by NewGivePeersMessage / NewGiveBlocksMessage / NewGiveTxnsMessage /
   NewAnnounceTxnsMessage / NewGetTxnsMessage; `send_refused` = sendMessage's test
   len(EncodeMessage(m)) > max, where len(EncodeMessage(m)) = 4-byte length prefix +
   4-byte id + body). The model is compared with the implementation on every check. *)
From Sky Require Import Base.Uint Model.Truncate Proofs.TruncateProofs.
From Coq Require Import List.
Import ListNotations.
Open Scope Z_scope.

(* for every item list and every maximum at or above the size of an empty
   message (8 + 4 = 12), the message built is accepted by sendMessage's length test *)
Theorem C23_truncate_fits : forall k (xs : list Z) max n,
  kind_sizes_ok k xs -> WIRE_HEADER + EMPTY_SIZE <= max ->
  new_message k xs max = Val n -> send_refused xs n max = false.
Proof. exact truncate_fits. Qed.
Print Assumptions C23_truncate_fits.

(* it holds the longest prefix that fits: no longer prefix of the (capped) list would be accepted *)
Theorem C23_truncate_longest_prefix : forall k (xs : list Z) max n,
  kind_sizes_ok k xs -> new_message k xs max = Val n ->
  forall j, (j <= Nat.min (item_limit k) (length xs))%nat -> send_refused xs j max = false -> (j <= n)%nat.
Proof. exact truncate_longest_prefix. Qed.
Print Assumptions C23_truncate_longest_prefix.

(* never more than the message's item limit (512 peers, 128 blocks, 256 txns / hashes) *)
Theorem C23_item_cap : forall k (xs : list Z) max n,
  kind_sizes_ok k xs -> new_message k xs max = Val n ->
  (n <= item_limit k)%nat /\ (n <= length xs)%nat.
Proof. exact item_cap. Qed.
Print Assumptions C23_item_cap.

(* no logger.Panic for a maximum at or above the empty-message size *)
Theorem C23_no_panic : forall k (xs : list Z) max,
  kind_sizes_ok k xs -> WIRE_HEADER + EMPTY_SIZE <= max -> new_message k xs max <> Panic.
Proof. exact new_message_no_panic. Qed.
Print Assumptions C23_no_panic.

(* the uint64 size arithmetic does not wrap under the size bounds *)
Theorem C23_no_u64_wrap : forall xs : list Z, sizes_ok xs -> encode_size xs = EMPTY_SIZE + sum xs.
Proof. exact no_u64_wrap. Qed.
Print Assumptions C23_no_u64_wrap.

(* non-vacuity, and defect F18 of the tree before the fix (the truncate
   functions reserved 4 bytes where the wire format adds 8): 3 hashes, max 72:
   the old code kept 2 hashes, encoded length 76 > 72, refused by sendMessage;
   the code as it is keeps 1 (encoded length 44). *)
Example C23_example :
  new_message AnnounceTxns [32; 32; 32] 72 = Val 1%nat /\ encoded_len [32; 32; 32] 1 = 44 /\
  new_message_gen 4 AnnounceTxns [32; 32; 32] 72 = Val 2%nat /\ encoded_len [32; 32; 32] 2 = 76 /\
  send_refused [32; 32; 32] 2 72 = true /\
  new_message GiveBlocks [100; 200; 300] 320 = Val 2%nat /\
  new_message GivePeers (repeat 6 600) 1000000 = Val 512%nat.
Proof. repeat split; vm_compute; reflexivity. Qed.
Print Assumptions C23_example.
