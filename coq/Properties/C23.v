(* C23 — Outgoing peer messages always fit the size limit and contain the
   longest fitting prefix of the requested items, capped by the item limit.
   Statements only. Model: Model/Truncate.v (`new_message k sizes max` = number
   of items kept by NewGivePeersMessage / NewGiveBlocksMessage / NewGiveTxnsMessage /
   NewAnnounceTxnsMessage / NewGetTxnsMessage; `send_refused` = sendMessage's test
   len(EncodeMessage(m)) > max, where len(EncodeMessage(m)) = 4-byte length prefix +
   4-byte id + body). The model is compared with the implementation on every check. *)
From Sky Require Import Base.Uint Model.Truncate Gen.MsgTruncate Proofs.TruncateProofs Proofs.TruncateRefine.
From Coq Require Import List.
Import ListNotations.
Open Scope Z_scope.

(* for every item list and every maximum at or above the size of an empty
   message (8 + 4 = 12), the message built is accepted by sendMessage's length test *)
Theorem C23_truncate_fits : forall k (xs : list Z) max n,
  kind_sizes_ok k xs -> WIRE_HEADER + EMPTY_SIZE <= max ->
  new_message k xs max = Val n -> send_refused xs n max = false.
Proof. exact truncate_fits. Qed.
Print Assumptions C23_truncate_fits.

(* it holds the longest prefix that fits: no longer prefix of the (capped) list would be accepted *)
Theorem C23_truncate_longest_prefix : forall k (xs : list Z) max n,
  kind_sizes_ok k xs -> new_message k xs max = Val n ->
  forall j, (j <= Nat.min (item_limit k) (length xs))%nat -> send_refused xs j max = false -> (j <= n)%nat.
Proof. exact truncate_longest_prefix. Qed.
Print Assumptions C23_truncate_longest_prefix.

(* never more than the message's item limit (512 peers, 128 blocks, 256 txns / hashes) *)
Theorem C23_item_cap : forall k (xs : list Z) max n,
  kind_sizes_ok k xs -> new_message k xs max = Val n ->
  (n <= item_limit k)%nat /\ (n <= length xs)%nat.
Proof. exact item_cap. Qed.
Print Assumptions C23_item_cap.

(* no logger.Panic for a maximum at or above the empty-message size *)
Theorem C23_no_panic : forall k (xs : list Z) max,
  kind_sizes_ok k xs -> WIRE_HEADER + EMPTY_SIZE <= max -> new_message k xs max <> Panic.
Proof. exact new_message_no_panic. Qed.
Print Assumptions C23_no_panic.

(* the uint64 size arithmetic does not wrap under the size bounds *)
Theorem C23_no_u64_wrap : forall xs : list Z, sizes_ok xs -> encode_size xs = EMPTY_SIZE + sum xs.
Proof. exact no_u64_wrap. Qed.
Print Assumptions C23_no_u64_wrap.

(* ---- the model IS the code: the hand-written truncate_loop / truncate_hashes of
   Model/Truncate.v are EQUAL to the Gallina regenerated from src/daemon/messages.go
   on every run (Gen/MsgTruncate.v, translator/stage3.go: truncateGivePeersMessage,
   truncateGiveBlocksMessage, truncateGiveTxnsMessage over the list of the items'
   encoded sizes; truncateAnnounceTxnsHashes / truncateGetTxnsHashes /
   truncateSHA256Slice over the number of hashes), for ALL size lists / counts and
   ALL uint64 maxMsgLength; a slice has fewer than 2^63 elements (Go's int).
   Result of the regenerated function: the number of items kept (kept_Z turns the
   model's nat into Z). Conventions of the regenerated unit (stated at its top and
   in the trusted base): m.EncodeSize() = size of the empty message (4) + the sum of
   the item sizes; a slice of hashes is its length.
   A change of meaning in one of these Go functions breaks a proof obligation here. *)
Theorem C23_GivePeers_is_translated : forall xs max, in_u 64 max -> Z.of_nat (length xs) < 2 ^ 63 ->
  truncateGivePeersMessage EMPTY_SIZE xs max = kept_Z (truncate_loop xs max).
Proof. exact GivePeers_refines. Qed.
Print Assumptions C23_GivePeers_is_translated.

Theorem C23_GiveBlocks_is_translated : forall xs max, in_u 64 max -> Z.of_nat (length xs) < 2 ^ 63 ->
  truncateGiveBlocksMessage EMPTY_SIZE xs max = kept_Z (truncate_loop xs max).
Proof. exact GiveBlocks_refines. Qed.
Print Assumptions C23_GiveBlocks_is_translated.

Theorem C23_GiveTxns_is_translated : forall xs max, in_u 64 max -> Z.of_nat (length xs) < 2 ^ 63 ->
  truncateGiveTxnsMessage EMPTY_SIZE xs max = kept_Z (truncate_loop xs max).
Proof. exact GiveTxns_refines. Qed.
Print Assumptions C23_GiveTxns_is_translated.

Theorem C23_AnnounceTxns_is_translated : forall count max, in_u 64 max -> 0 <= count < 2 ^ 63 ->
  truncateAnnounceTxnsHashes EMPTY_SIZE count max = truncate_hashes count max.
Proof. exact AnnounceTxns_refines. Qed.
Print Assumptions C23_AnnounceTxns_is_translated.

Theorem C23_GetTxns_is_translated : forall count max, in_u 64 max -> 0 <= count < 2 ^ 63 ->
  truncateGetTxnsHashes EMPTY_SIZE count max = truncate_hashes count max.
Proof. exact GetTxns_refines. Qed.
Print Assumptions C23_GetTxns_is_translated.

(* the size convention of the regenerated unit is the model's encode_size *)
Theorem C23_encode_size_is_translated : forall xs, msg_encode_size EMPTY_SIZE xs = encode_size xs.
Proof. exact msg_encode_size_eq. Qed.
Print Assumptions C23_encode_size_is_translated.

(* non-vacuity, and defect F18 of the tree before the fix (the truncate
   functions reserved 4 bytes where the wire format adds 8): 3 hashes, max 72:
   the old code kept 2 hashes, encoded length 76 > 72, refused by sendMessage;
   the code as it is keeps 1 (encoded length 44). *)
Example C23_example :
  new_message AnnounceTxns [32; 32; 32] 72 = Val 1%nat /\ encoded_len [32; 32; 32] 1 = 44 /\
  new_message_gen 4 AnnounceTxns [32; 32; 32] 72 = Val 2%nat /\ encoded_len [32; 32; 32] 2 = 76 /\
  send_refused [32; 32; 32] 2 72 = true /\
  new_message GiveBlocks [100; 200; 300] 320 = Val 2%nat /\
  new_message GivePeers (repeat 6 600) 1000000 = Val 512%nat.
Proof. repeat split; vm_compute; reflexivity. Qed.
Print Assumptions C23_example.
