(* C10 — signed transactions and blocks are not malleable by third parties;
   only low-s signatures with a recovery id below 4 are accepted or produced.
   Statements only.

   Model: the acceptance predicates of src/cipher/crypto.go and
   src/cipher/secp256k1-go/secp256k1.go exactly as coded (Model/SigAccept.v on
   top of the curve of Model/Secp.v): a 65-byte signature r || s || recid is
   accepted iff bit 255 of s is clear, recid < 4, and public-key recovery
   returns the expected key.  Compared with the implementation on every run
   over a malleation catalogue (harness/c10, runner/c10_driver.ml).

   What holds, what does not:
   * produced signatures have 0 < s <= halfOrder = (n-1)/2 and recid < 4 (sign_low_s);
   * accepted signatures have s < 2^255 and recid < 4 (accept_bits) — NOT s <= halfOrder:
     `high_s_accepted_refuted` exhibits an accepted signature with s = halfOrder + 1
     (finding F12, replayed on the implementation on every run);
   * the negation (r, n - s, recid xor 1) of a produced signature recovers the same
     key, and is accepted iff n - 2^255 < s (malleated_accepted_iff) — a window of
     fewer than 2^129 values of s (negation_window, window_size) that a produced
     signature hits with probability about 2^-128;
   * recid >= 4 and bit 255 set are always rejected.
   Premises of the theorems marked (G): prime p, prime n, padd_associative,
   sqrt_correct — see Properties/C14.v. *)
From Coq Require Import ZArith List Bool Znumtheory.
From Sky Require Import Model.Secp Model.SigAccept
  Proofs.SecpProofs Proofs.SigAcceptProofs Proofs.SigAcceptGroup.
Import ListNotations.
Open Scope Z_scope.

(* what the signer produces *)
Theorem C10_sign_low_s : forall msg k nonce sg,
  sign_bytes msg k nonce = Some sg ->
  sig_wellformed sg = true /\ 0 < sig_s sg <= halfOrder /\ 0 <= sig_recid sg < 4 /\ 0 <= sig_r sg < n.
Proof. exact sign_low_s. Qed.
Print Assumptions C10_sign_low_s.

(* what the verifier's well-formedness test (VerifySignatureValidity) means *)
Theorem C10_accept_bits : forall sg, all_bytes sg = true -> sig_wellformed sg = true ->
  0 <= sig_s sg < 2 ^ 255 /\ 0 <= sig_recid sg < 4 /\ length sg = 65%nat.
Proof. exact accept_bits. Qed.
Print Assumptions C10_accept_bits.

Theorem C10_wellformed_bytes : forall r s v, 0 <= s < 2 ^ 256 ->
  sig_wellformed (sig_bytes r s v) = (s <? 2 ^ 255) && (v <? 4).
Proof. exact sig_wellformed_bytes. Qed.
Print Assumptions C10_wellformed_bytes.

(* s and n - s both pass the bit test only in a narrow window around n/2 *)
Theorem C10_negation_window : forall s,
  0 < s < n -> s < 2 ^ 255 -> n - s < 2 ^ 255 -> n - 2 ^ 255 < s < 2 ^ 255.
Proof. exact negation_window. Qed.
Print Assumptions C10_negation_window.

Theorem C10_window_size : 2 ^ 255 - (n - 2 ^ 255) < 2 ^ 129 /\ n - 2 ^ 255 < halfOrder < 2 ^ 255.
Proof. exact window_size. Qed.
Print Assumptions C10_window_size.

(* never accepted: recovery id >= 4, bit 255 of s set; the accepted key is unique *)
Theorem C10_recid_ge4_rejected : forall msg sg pk, 4 <= sig_recid sg -> verify_signature msg sg pk = false.
Proof. exact recid_ge4_rejected. Qed.
Print Assumptions C10_recid_ge4_rejected.

Theorem C10_high_bit_rejected : forall msg sg pk, 128 <= nth 32 sg 0 -> verify_signature msg sg pk = false.
Proof. exact high_bit_rejected. Qed.
Print Assumptions C10_high_bit_rejected.

Theorem C10_accepted_key_unique : forall msg sg pk1 pk2,
  verify_signature msg sg pk1 = true -> verify_signature msg sg pk2 = true -> bytes_eqb pk1 pk2 = true.
Proof. exact accepted_key_unique. Qed.
Print Assumptions C10_accepted_key_unique.

Theorem C10_verify_signature_vpsh : forall msg sg pk,
  verify_signature msg sg pk = true -> verify_pubkey_signed_hash pk sg msg = SigOK.
Proof. exact verify_signature_vpsh. Qed.
Print Assumptions C10_verify_signature_vpsh.

(* (G) what is produced is accepted for the signer's key *)
Theorem C10_sign_accepted : prime p -> prime n -> padd_associative -> sqrt_correct ->
  forall msg k nonce r s v pk,
  msg <> [] -> 0 <= be_val msg -> 0 < k < n -> 0 < nonce < n ->
  sign k (be_val msg) nonce = Some (r, s, v) -> r <> 0 ->
  pubkey_of_seckey k = Some pk ->
  verify_signature msg (sig_bytes r s v) pk = true.
Proof. exact sign_accepted. Qed.
Print Assumptions C10_sign_accepted.

(* (G) the negated signature is accepted for the same key exactly when s is in the window *)
Theorem C10_malleated_accepted_iff : prime p -> prime n -> padd_associative -> sqrt_correct ->
  forall msg k nonce r s v pk,
  msg <> [] -> 0 <= be_val msg -> 0 < k < n -> 0 < nonce < n ->
  sign k (be_val msg) nonce = Some (r, s, v) -> r <> 0 ->
  pubkey_of_seckey k = Some pk ->
  verify_signature msg (sig_bytes r (n - s) (flip_recid v)) pk = (n - 2 ^ 255 <? s).
Proof. exact malleated_accepted_iff. Qed.
Print Assumptions C10_malleated_accepted_iff.

(* "only low-s signatures are accepted" is false of the faithful model: F12 *)
Theorem C10_high_s_accepted_refuted :
  exists msg sg pk,
    verify_signature msg sg pk = true /\ verify_pubkey_signed_hash pk sg msg = SigOK /\
    halfOrder < sig_s sg < n /\ sig_s sg = halfOrder + 1.
Proof. exact high_s_accepted_refuted. Qed.
Print Assumptions C10_high_s_accepted_refuted.

(* non-vacuity: the witness is a concrete 65-byte signature / 33-byte key *)
Example C10_example_witness :
  length f12_sig = 65%nat /\ length f12_pk = 33%nat /\ sig_r f12_sig = 1 /\ sig_recid f12_sig = 0 /\
  verify_signature f12_msg f12_sig f12_pk = true.
Proof. exact f12_example. Qed.
Print Assumptions C10_example_witness.
