(* C03 — Accepted transactions never create coin hours; accrued hours are
   monotone in time; no new unconfirmed transaction whose output hours overflow.
   Statements only; each is closed by `exact` of a lemma proved about
   Model/Hours.v, whose arithmetic is the Gallina regenerated from /repo
   (Gen/CoinHours.v: UxOut.CoinHours, Gen/Mathutil.v: AddUint64, MultUint64).

   Vocabulary (Model/HoursSpec.v, purely mathematical):
     acc_hours T i   = hours + floor(coins * (T - time) / 3.6e9)   (hours if T < time)
     acc_mid_ok T i  = the three intermediate products of CoinHours fit in 64 bits
     acc_ok T i      = acc_mid_ok and acc_hours < 2^64  (CoinHours returns no error)
     eff_hours T i   = acc_hours if < 2^64, else 0  (legacy exception
                       ErrAddEarnedCoinHoursAdditionOverflow: the input counts as zero)
     out_sum outs    = TRUE (unbounded) sum of the outputs' hours *)
(* Gen.CoinLoops first: its definitions have the Go names, as the model's do; the
   unqualified names below are the model's (Model.Hours), the regenerated ones
   are written CoinLoops.f *)
From Sky Require Import Gen.CoinLoops.
From Sky Require Import Base.Uint Model.ArithSpec Model.HoursSpec Model.Hours
  Gen.Mathutil Gen.CoinHours Proofs.CoinHoursProofs Proofs.HoursProofs Proofs.HoursRefine.
Open Scope Z_scope.

(* ---- (a) accrued hours *)

(* value: initial hours plus one hour per whole coin per hour elapsed *)
Theorem C03_accrued_value : forall T i h, wf_in i -> in_u 64 T -> i_time i <= T ->
  coin_hours T i = Val (h, None) ->
  h = i_hours i + i_coins i * (T - i_time i) / 3600000000 /\ h < 2 ^ 64.
Proof. exact coin_hours_value. Qed.
Print Assumptions C03_accrued_value.

(* never decrease as time moves forward *)
Theorem C03_accrued_mono : forall T T' i h h', wf_in i -> in_u 64 T -> in_u 64 T' -> T <= T' ->
  coin_hours T i = Val (h, None) -> coin_hours T' i = Val (h', None) -> h <= h'.
Proof. exact coin_hours_mono. Qed.
Print Assumptions C03_accrued_mono.

(* an overflow error at some time persists at every later time (so an output
   never "comes back" with fewer hours) *)
Theorem C03_accrued_errors_upward : forall T T' i, wf_in i -> in_u 64 T -> in_u 64 T' ->
  i_time i <= T <= T' ->
  (exists h', coin_hours T' i = Val (h', None)) -> exists h, coin_hours T i = Val (h, None).
Proof. exact coin_hours_errors_upward. Qed.
Print Assumptions C03_accrued_errors_upward.

(* CoinHours returns no error exactly when nothing overflows *)
Theorem C03_accrued_ok_iff : forall T i, wf_in i -> in_u 64 T ->
  (exists h, coin_hours T i = Val (h, None)) <-> acc_ok T i = true.
Proof. exact coin_hours_ok_iff. Qed.
Print Assumptions C03_accrued_ok_iff.

(* ---- (b) the block-level rule coin.VerifyTransactionHoursSpending *)

(* it accepts EXACTLY when no input has an intermediate overflow, the inputs'
   effective hours fit in 64 bits, and the outputs' hours summed modulo 2^64
   do not exceed them *)
Theorem C03_hours_spending_accepts_iff : forall T ins outs,
  Forall wf_in ins -> Forall wf_out outs -> in_u 64 T ->
  (VerifyTransactionHoursSpending T ins outs = Val None <-> block_hours_ok T ins outs = true).
Proof. exact hours_spending_accepts_iff. Qed.
Print Assumptions C03_hours_spending_accepts_iff.

(* FULL statement of the property:
     accepted -> out_sum outs <= in_eff_sum T ins.
   It is FALSE of the block-level rule (C03_hours_block_wrap_refuted below: the
   code adds the outputs' hours unchecked "because this would invalidate
   existing blocks"). What holds — PARTIAL: the sum as the code computes it
   (modulo 2^64) is within the inputs' effective hours, and the full statement
   holds whenever the true sum fits in 64 bits. *)
Theorem C03_hours_not_created_partial : forall T ins outs,
  Forall wf_in ins -> Forall wf_out outs -> in_u 64 T ->
  VerifyTransactionHoursSpending T ins outs = Val None ->
  wrap 64 (out_sum outs) <= in_eff_sum T ins < 2 ^ 64 /\
  (out_sum outs < 2 ^ 64 -> out_sum outs <= in_eff_sum T ins) /\
  not_created_partial T ins outs = true.
Proof. exact hours_not_created_partial. Qed.
Print Assumptions C03_hours_not_created_partial.

(* accepted -> the only CoinHours error that was tolerated is the legacy one *)
Theorem C03_hours_spending_inputs_ok : forall T ins outs,
  Forall wf_in ins -> Forall wf_out outs -> in_u 64 T ->
  VerifyTransactionHoursSpending T ins outs = Val None ->
  forall i, In i ins -> acc_mid_ok T i = true.
Proof. exact hours_spending_inputs_ok. Qed.
Print Assumptions C03_hours_spending_inputs_ok.

(* witness against the full statement: one input of 2 coins / 10 hours, outputs
   of 2^63 and 2^63+5 hours; replayed on the implementation by every run (F14) *)
Theorem C03_hours_block_wrap_refuted :
  exists T ins outs, Forall wf_in ins /\ Forall wf_out outs /\ in_u 64 T /\
    VerifyTransactionHoursSpending T ins outs = Val None /\
    VerifyBlockTxnConstraints None T ins outs = Val None /\
    in_eff_sum T ins < out_sum outs.
Proof. exact hours_block_wrap_refuted. Qed.
Print Assumptions C03_hours_block_wrap_refuted.

(* the same at the level of transaction.VerifyBlockTxnConstraints, whatever the
   verdict [pre] of the structural / signature checks that precede it *)
Theorem C03_block_accepts_iff : forall pre T ins outs,
  Forall wf_in ins -> Forall wf_out outs -> in_u 64 T ->
  (VerifyBlockTxnConstraints pre T ins outs = Val None <->
   pre = None /\ coins_ok ins outs = true /\ block_hours_ok T ins outs = true).
Proof. exact block_accepts_iff. Qed.
Print Assumptions C03_block_accepts_iff.

Theorem C03_block_hours_not_created_partial : forall pre T ins outs,
  Forall wf_in ins -> Forall wf_out outs -> in_u 64 T ->
  VerifyBlockTxnConstraints pre T ins outs = Val None ->
  wrap 64 (out_sum outs) <= in_eff_sum T ins < 2 ^ 64 /\
  (out_sum outs < 2 ^ 64 -> out_sum outs <= in_eff_sum T ins) /\
  in_coins ins = out_coins outs.
Proof. exact block_hours_not_created_partial. Qed.
Print Assumptions C03_block_hours_not_created_partial.

(* ---- (c) the single-transaction hard rule (admission to the unconfirmed pool) *)

Theorem C03_single_accepts_iff : forall pre T ins outs,
  Forall wf_in ins -> Forall wf_out outs -> in_u 64 T ->
  (VerifySingleTxnHardConstraints pre T ins outs = Val None <->
   pre = None /\ coins_ok ins outs = true /\ pool_hours_ok T ins outs = true).
Proof. exact single_accepts_iff. Qed.
Print Assumptions C03_single_accepts_iff.

(* no transaction whose output hours overflow is admitted *)
Theorem C03_pool_no_hours_overflow : forall pre T ins outs,
  Forall wf_in ins -> Forall wf_out outs -> in_u 64 T ->
  VerifySingleTxnHardConstraints pre T ins outs = Val None ->
  out_sum outs < 2 ^ 64.
Proof. exact pool_no_hours_overflow. Qed.
Print Assumptions C03_pool_no_hours_overflow.

(* for an admitted transaction the FULL statement holds with no exception at
   all: every input's hours are computed without error and the true sum of the
   outputs' hours is within the true sum of the inputs' accrued hours *)
Theorem C03_pool_hours_not_created : forall pre T ins outs,
  Forall wf_in ins -> Forall wf_out outs -> in_u 64 T ->
  VerifySingleTxnHardConstraints pre T ins outs = Val None ->
  (forall i, In i ins -> acc_ok T i = true) /\
  out_sum outs <= in_acc_sum T ins < 2 ^ 64 /\ in_coins ins = out_coins outs.
Proof. exact pool_hours_not_created. Qed.
Print Assumptions C03_pool_hours_not_created.

(* whatever is admitted to the pool is acceptable in a block at the same head *)
Theorem C03_single_implies_block : forall pre T ins outs,
  Forall wf_in ins -> Forall wf_out outs -> in_u 64 T ->
  VerifySingleTxnHardConstraints pre T ins outs = Val None ->
  VerifyBlockTxnConstraints pre T ins outs = Val None.
Proof. exact single_implies_block. Qed.
Print Assumptions C03_single_implies_block.

(* ---- (d) the model IS the code: the hand-written loops of Model/Hours.v are
   equal, for ALL inputs (no range hypotheses), to the Gallina that the
   translator regenerates from src/coin/transactions.go and src/coin/outputs.go
   on every run (Gen/CoinLoops.v), applied to the fields the Go functions read:
     ins_proj   : each input  -> (Head.Time, Body.Coins, Body.Hours)
     outs_hours : each output -> Hours        outs_coins / ins_coins -> Coins
   So every theorem above is a theorem about the regenerated code, and a change
   of meaning in one of these Go functions breaks a proof obligation here. *)
Theorem C03_VerifyTransactionHoursSpending_is_translated : forall T ins outs,
  Hours.VerifyTransactionHoursSpending T ins outs
  = CoinLoops.VerifyTransactionHoursSpending T (ins_proj ins) (outs_hours outs).
Proof. exact VerifyTransactionHoursSpending_refines. Qed.
Print Assumptions C03_VerifyTransactionHoursSpending_is_translated.

Theorem C03_OutputHours_is_translated : forall outs,
  Hours.Transaction_OutputHours outs = CoinLoops.Transaction_OutputHours (outs_hours outs).
Proof. exact OutputHours_refines. Qed.
Print Assumptions C03_OutputHours_is_translated.

Theorem C03_UxArray_CoinHours_is_translated : forall T ins,
  Hours.UxArray_CoinHours T ins = CoinLoops.UxArray_CoinHours (ins_proj ins) T.
Proof. exact UxArray_CoinHours_refines. Qed.
Print Assumptions C03_UxArray_CoinHours_is_translated.

Theorem C03_VerifyTransactionCoinsSpending_is_translated : forall ins outs,
  Hours.VerifyTransactionCoinsSpending ins outs
  = CoinLoops.VerifyTransactionCoinsSpending (ins_coins ins) (outs_coins outs).
Proof. exact VerifyTransactionCoinsSpending_refines. Qed.
Print Assumptions C03_VerifyTransactionCoinsSpending_is_translated.

(* the acceptance theorem restated directly on the regenerated function *)
Theorem C03_translated_hours_spending_accepts_iff : forall T ins outs,
  Forall wf_in ins -> Forall wf_out outs -> in_u 64 T ->
  (CoinLoops.VerifyTransactionHoursSpending T (ins_proj ins) (outs_hours outs) = Val None
   <-> block_hours_ok T ins outs = true).
Proof. exact translated_hours_spending_accepts_iff. Qed.
Print Assumptions C03_translated_hours_spending_accepts_iff.

(* non-vacuity: an accepted transaction with accrued hours (2 coins for 1000
   hours = 2000 hours + 7), spent to the last hour; one hour more is rejected;
   an input in the legacy-overflow case counts as zero *)
Example C03_example :
  VerifySingleTxnHardConstraints None 3600100 [mkIn 100 2000000 7 0] [mkOut 2000000 2007] = Val None /\
  VerifyTransactionHoursSpending 3600100 [mkIn 100 2000000 7 0] [mkOut 2000000 2008]
    = Val (Some "Insufficient coin hours"%string) /\
  eff_hours 3600100 (mkIn 100 2000000 18446744073709551615 0) = 0 /\
  VerifyTransactionHoursSpending 3600100 [mkIn 100 2000000 18446744073709551615 0; mkIn 100 1000000 3 1]
    [mkOut 3000000 1003] = Val None.
Proof. repeat split; vm_compute; reflexivity. Qed.
Print Assumptions C03_example.
