(* C27 — HTTP API access control is enforced on every endpoint.
   Statements only.  `decide` (Model/ApiAccess.v) is the middleware chain of
   src/api in the code's order; `routes` (Model/ApiRoutes.v) is the table
   regenerated from newServerMux on every run (Gen/Routes.v). *)
From Coq Require Import String List ZArith Bool.
From Sky Require Import Model.ApiAccess Gen.Routes Model.ApiRoutes Proofs.ApiAccessProofs Proofs.ApiRoutesProofs.
Import ListNotations.
Open Scope string_scope.
Open Scope Z_scope.

(* the translator could evaluate every registration of newServerMux *)
Theorem C27_routes_translated : routes_translation_error = None.
Proof. exact routes_translated. Qed.
Print Assumptions C27_routes_translated.

(* the regenerated table is well formed: only "/", /api/v1/csrf and
   /api/v1/version are registered without API sets; every listed method has a
   non-empty list of known API sets; only /api/v1/csrf skips the CSRF check;
   no registration skips the header check; paths are distinct; "/" exists *)
Theorem C27_routes_wf : wf_tableb routes = true.
Proof. exact routes_wf. Qed.
Print Assumptions C27_routes_wf.

(* For ALL configurations and requests and every route whose registration
   carries API sets or is one of the documented exemptions (every route of a
   well-formed table): a request reaches the endpoint's logic iff the method is
   served there, one of the endpoint's API sets for that method is enabled, a
   state-changing request carries a token with a correct MAC that has not
   expired (when the check is on), Host and Origin/Referer are acceptable (when
   the header check is on), exactly the configured credentials are presented
   (none when none are configured), a v2 POST is JSON, and the request is not a
   CORS preflight. *)
Theorem C27_reaches_iff : forall cfg r q, sets_or_exempt r -> (decide cfg r q = Handler <-> may_reach cfg r q).
Proof. exact reaches_iff. Qed.
Print Assumptions C27_reaches_iff.

(* ... in particular for every route registered by this tree's newServerMux *)
Theorem C27_reaches_iff_routes : forall cfg r q, In r routes -> (decide cfg r q = Handler <-> may_reach cfg r q).
Proof. exact routes_reaches_iff. Qed.
Print Assumptions C27_reaches_iff_routes.

(* whatever is registered, a request that reaches the handler passed every check *)
Theorem C27_reaches_only_if : forall cfg r q, decide cfg r q = Handler ->
  method_served r (q_meth q) /\ csrf_ok cfg r q /\ (hdr_on cfg r -> host_ok cfg q /\ origin_ok cfg q) /\
  creds_ok cfg q /\ ctype_ok r q /\ ~ preflight q /\
  (forall tbl, r_sets r = Some tbl -> exists s, In s (sets_for r (q_meth q)) /\ In s (c_enabled cfg)).
Proof. exact reaches_only_if. Qed.
Print Assumptions C27_reaches_only_if.

(* ... otherwise it is refused, with the status of the first check that fails *)
Theorem C27_refused_status : forall cfg r q n, In r routes -> decide cfg r q = Status n ->
  (n = 401 /\ ~ creds_ok cfg q) \/
  (n = 415 /\ creds_ok cfg q /\ ~ ctype_ok r q) \/
  (n = 403 /\ creds_ok cfg q /\ ctype_ok r q /\
     ((hdr_on cfg r /\ ~ (host_ok cfg q /\ origin_ok cfg q)) \/ ~ csrf_ok cfg r q)) \/
  (n = 200 /\ checks_pass cfg r q /\ preflight q) \/
  (n = 405 /\ checks_pass cfg r q /\ ~ preflight q /\ ~ method_served r (q_meth q)) \/
  (n = 403 /\ checks_pass cfg r q /\ ~ preflight q /\ method_served r (q_meth q) /\ ~ api_enabled cfg r (q_meth q)).
Proof. exact routes_refused_status. Qed.
Print Assumptions C27_refused_status.

(* the decidable form evaluated on the implementation's answers is the same proposition *)
Theorem C27_decidable_form : forall cfg r q, may_reachb cfg r q = true <-> may_reach cfg r q.
Proof. exact may_reachb_iff. Qed.
Print Assumptions C27_decidable_form.

(* every registered endpoint other than the three exempt ones is reached only
   by a listed method with one of its API sets enabled *)
Theorem C27_every_route_guarded : forall cfg r q,
  In r routes -> ~ In (r_path r) exempt_paths -> decide cfg r q = Handler ->
  exists tbl sets s, r_sets r = Some tbl /\ In (q_meth q, sets) tbl /\ In s sets /\ In s known_sets /\ In s (c_enabled cfg).
Proof. exact routes_guarded. Qed.
Print Assumptions C27_every_route_guarded.

(* every registered endpoint other than the token endpoint needs a valid token
   for POST/PUT/DELETE while the check is on *)
Theorem C27_every_route_csrf : forall cfg r q,
  In r routes -> ~ In (r_path r) csrf_exempt_paths ->
  c_disable_csrf cfg = false -> state_changing (q_meth q) ->
  decide cfg r q = Handler -> token_ok q.
Proof. exact routes_csrf. Qed.
Print Assumptions C27_every_route_csrf.

(* every request path is served by a registered entry (exact match, else "/") *)
Theorem C27_mux_total : forall p, exists r, mux_lookup routes p = Some r /\ In r routes.
Proof. exact routes_mux_total. Qed.
Print Assumptions C27_mux_total.

(* the GUI's per-file registrations are static files without API sets *)
Theorem C27_gui_routes_shape : forallb gui_route_shapeb gui_file_routes = true.
Proof. exact gui_routes_shape. Qed.
Print Assumptions C27_gui_routes_shape.

Theorem C27_no_set_no_access : forall cfg r q tbl,
  r_sets r = Some tbl -> c_enabled cfg = [] -> decide cfg r q <> Handler.
Proof. exact no_set_no_access. Qed.
Print Assumptions C27_no_set_no_access.

(* credentials: exactly the configured pair (true since the F8a repair) *)
Theorem C27_exact_credentials : forall cfg r q,
  decide cfg r q = Handler -> creds_configured cfg -> q_auth q = Some (c_user cfg, c_pass cfg).
Proof. exact reaches_needs_exact_credentials. Qed.
Print Assumptions C27_exact_credentials.

(* F8a, for the record: the chain with the unrepaired comparison
   sha256(user ++ pass) let ("ab","c") in for the configured ("a","bc") *)
Theorem C27_concat_credentials_refuted : exists cfg r q,
  decide_concat cfg r q = Handler /\ creds_configured cfg /\ q_auth q <> Some (c_user cfg, c_pass cfg).
Proof. exact concat_credentials_refuted. Qed.
Print Assumptions C27_concat_credentials_refuted.

(* F8b: "Requesting a CSRF token invalidates any previous CSRF token" (README)
   is false of the faithful model: tokens are stateless *)
Theorem C27_old_token_invalidated_refuted : ~ old_token_invalidated.
Proof. exact old_token_invalidated_refuted. Qed.
Print Assumptions C27_old_token_invalidated_refuted.

(* what holds instead: a token is accepted exactly until its own expiry *)
Theorem C27_token_valid_until_expiry_partial : forall s t1 t3,
  let '(_, tk1) := csrf_issue s t1 in
  forall q, token_ok (with_token q tk1 t3) <-> t3 <= t1 + csrf_max_age.
Proof. exact token_valid_until_expiry. Qed.
Print Assumptions C27_token_valid_until_expiry_partial.

(* non-vacuity *)
Example C27_example_reached : exists cfg r q,
  mux_lookup routes "/api/v1/wallet/create" = Some r /\ creds_configured cfg /\ c_disable_csrf cfg = false /\
  state_changing (q_meth q) /\ decide cfg r q = Handler.
Proof. exact routes_example_reached. Qed.
Print Assumptions C27_example_reached.
