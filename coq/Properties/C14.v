(* C14 — the secp256k1 implementation agrees with the curve mathematics.
   Statements only.  The executable model Model/Secp.v (textbook F_p / affine /
   Jacobian arithmetic, ECDSA sign / verify / recover, ECDH, deterministic keys)
   is compared with the Go implementation on every run (Mode B correspondence,
   harness/c14 + runner/c14_driver.ml); the theorems below say what the model is.

   PARTIAL by design (DESIGN.md 6.14): the theorems of the last group have the
   PREMISES  prime p,  prime n,  padd_associative  (associativity of the
   chord-tangent addition on curve points)  and, where decompression is
   involved,  sqrt_correct  (c^((p+1)/4) is a root of every square).  They are
   hypotheses visible in each statement, not axioms.  Everything else —
   closure, commutativity, inverses, n*G = O, correctness of the Jacobian
   execution (jacobian_correct) — is proved. *)
From Coq Require Import ZArith List Znumtheory.
From Sky Require Import Model.Secp Gen.SecpConsts
  Proofs.SecpProofs Proofs.SecpField Proofs.SecpJacobian Proofs.SecpGroup Proofs.SecpOrder.
Import ListNotations.
Open Scope Z_scope.

(* ---- constants: the model's n, p, halfOrder, G are the ones in the Go source
        (Gen/SecpConsts.v is regenerated from secp256k1-go2/secp256k1.go on every run) *)
Theorem C14_consts_match_go :
  n = go_Order /\ p = go_p /\ halfOrder = go_halfOrder /\ Gx = go_G_X /\ Gy = go_G_Y.
Proof. exact consts_match_go. Qed.
Print Assumptions C14_consts_match_go.

Theorem C14_consts_relations :
  p = 2 ^ 256 - 2 ^ 32 - 977 /\ two256 = 2 ^ 256 /\
  halfOrder = (n - 1) / 2 /\ n = 2 * halfOrder + 1 /\
  sqrt_exp = (p + 1) / 4 /\ p mod 4 = 3 /\
  1 < n /\ n < p /\ p < two256 /\ 2 ^ 255 < n /\
  on_curve G = true.
Proof. exact consts_relations. Qed.
Print Assumptions C14_consts_relations.

(* ---- unconditional range / encoding lemmas *)
Theorem C14_seckey_valid_iff : forall k, seckey_valid k = true <-> 0 < k < n.
Proof. exact seckey_valid_iff. Qed.
Print Assumptions C14_seckey_valid_iff.

Theorem C14_bytes_roundtrip : forall len z, 0 <= z < 256 ^ Z.of_nat len -> be_val (be_bytes len z) = z.
Proof. exact be_val_be_bytes. Qed.
Print Assumptions C14_bytes_roundtrip.

Theorem C14_bytes_roundtrip_inv : forall l, all_bytes l = true -> be_bytes (length l) (be_val l) = l.
Proof. exact be_bytes_be_val. Qed.
Print Assumptions C14_bytes_roundtrip_inv.

(* the modular inverse (extended Euclid with fuel) is an inverse whenever it
   answers, and it answers for every non-zero residue of a prime below 2^256 *)
Theorem C14_modinv_sound : forall a m x, 1 < m -> modinv a m = Some x -> (a * x) mod m = 1 /\ 0 <= x < m.
Proof. exact modinv_sound. Qed.
Print Assumptions C14_modinv_sound.

Theorem C14_modinv_prime : forall a m, prime m -> m < 2 ^ 256 -> a mod m <> 0 ->
  exists x, modinv a m = Some x /\ (a * x) mod m = 1 /\ 0 <= x < m.
Proof. exact modinv_prime. Qed.
Print Assumptions C14_modinv_prime.

(* a byte string that parses as a public key is the canonical encoding of a
   finite point on the curve (x < p, prefix = parity of y) *)
Theorem C14_parse_pubkey_sound : forall bs P,
  all_bytes bs = true -> parse_pubkey bs = inl P ->
  on_curve P = true /\ P <> Inf /\ compress P = Some bs.
Proof. exact parse_pubkey_sound. Qed.
Print Assumptions C14_parse_pubkey_sound.

(* Signature.Sign only outputs r < n, low s and a recovery id below 4 *)
Theorem C14_sign_ranges : forall k m nonce r s v,
  sign k m nonce = Some (r, s, v) -> 0 <= r < n /\ 0 < s <= halfOrder /\ 0 <= v < 4.
Proof. exact sign_ranges. Qed.
Print Assumptions C14_sign_ranges.

(* recovery succeeds only for 0 < r, s < n, and with bit 1 of recid only if r + n < p;
   only recid mod 4 matters *)
Theorem C14_recover_ranges : forall m r s v Q,
  recover m r s v = inl Q ->
  0 < r < n /\ 0 < s < n /\ (Z.odd (v / 2) = true -> r + n < p) /\ Q <> Inf.
Proof. exact recover_ranges. Qed.
Print Assumptions C14_recover_ranges.

Theorem C14_recover_recid_mod4 : forall m r s v, 0 <= v -> recover m r s (v mod 4) = recover m r s v.
Proof. exact recover_recid_mod4. Qed.
Print Assumptions C14_recover_recid_mod4.

(* ---- premise `prime p` only: F_p is a field, hence ... *)

(* the curve is closed under the chord-tangent addition *)
Theorem C14_padd_closed : prime p -> forall P Q,
  on_curve P = true -> on_curve Q = true -> on_curve (padd P Q) = true.
Proof. exact padd_closed. Qed.
Print Assumptions C14_padd_closed.

(* jacobian_correct: the Jacobian formulas used for execution represent the affine ones *)
Theorem C14_jacobian_double : prime p -> forall J,
  jcanon J = true -> of_j (jdouble J) = padd (of_j J) (of_j J).
Proof. exact jdouble_correct. Qed.
Print Assumptions C14_jacobian_double.

Theorem C14_jacobian_add : prime p -> forall J1 J2,
  jcanon J1 = true -> jcanon J2 = true -> on_curve (of_j J1) = true -> on_curve (of_j J2) = true ->
  of_j (jadd J1 J2) = padd (of_j J1) (of_j J2).
Proof. exact jadd_correct. Qed.
Print Assumptions C14_jacobian_add.

Theorem C14_jacobian_correct : prime p -> forall k P, on_curve P = true -> smulx k P = smul k P.
Proof. exact smulx_correct. Qed.
Print Assumptions C14_jacobian_correct.

Theorem C14_lincomb_correct : prime p -> forall a P b Q,
  on_curve P = true -> on_curve Q = true -> lincomb a P b Q = padd (smul a P) (smul b Q).
Proof. exact lincomb_correct. Qed.
Print Assumptions C14_lincomb_correct.

Theorem C14_padd_comm : prime p -> forall P Q,
  on_curve P = true -> on_curve Q = true -> padd P Q = padd Q P.
Proof. exact padd_comm_final. Qed.
Print Assumptions C14_padd_comm.

(* n*G = O: evaluated by the kernel on the Jacobian execution, transferred by jacobian_correct *)
Theorem C14_order_G_exec : smulx n G = Inf.
Proof. exact order_G_exec. Qed.
Print Assumptions C14_order_G_exec.

Theorem C14_order_G : prime p -> smul n G = Inf.
Proof. exact order_G_proved. Qed.
Print Assumptions C14_order_G.

(* ---- the ECDSA algebra, under the group-law premises *)

(* a signature made by Signature.Sign verifies under the signer's public key *)
Theorem C14_verify_sign : prime p -> prime n -> padd_associative ->
  forall k m nonce r s v,
  0 <= k -> 0 <= m -> 0 <= nonce ->
  sign k m nonce = Some (r, s, v) ->
  ecdsa_verify (smul k G) m r s = true.
Proof. exact verify_sign_final. Qed.
Print Assumptions C14_verify_sign.

(* ... and recovery with the produced recovery id returns exactly the signer's key k*G *)
Theorem C14_recover_sign : prime p -> prime n -> padd_associative -> sqrt_correct ->
  forall k m nonce r s v,
  0 < k < n -> 0 <= m -> 0 < nonce < n ->
  sign k m nonce = Some (r, s, v) -> r <> 0 ->
  recover m r s v = inl (smul k G).
Proof. exact recover_sign_final. Qed.
Print Assumptions C14_recover_sign.

(* both sides of ECDH obtain the same value *)
Theorem C14_ecdh_sym_points : prime p -> padd_associative ->
  forall a b, 0 <= a -> 0 <= b -> smulx a (smulx b G) = smulx b (smulx a G).
Proof. exact ecdh_sym_points_final. Qed.
Print Assumptions C14_ecdh_sym_points.

Theorem C14_ecdh_sym : prime p -> padd_associative -> sqrt_correct ->
  forall a b pa pb,
  pubkey_of_seckey a = Some pa -> pubkey_of_seckey b = Some pb -> ecdh pb a = ecdh pa b.
Proof. exact ecdh_sym_final. Qed.
Print Assumptions C14_ecdh_sym.

(* (r, n - s) verifies whenever (r, s) does — the malleation that C10 is about *)
Theorem C14_negated_sig_verifies : prime p -> prime n -> padd_associative ->
  forall d m r s, 0 <= d -> 0 < s < n ->
  ecdsa_verify (smul d G) m r s = true -> ecdsa_verify (smul d G) m r (n - s) = true.
Proof. exact negated_sig_verifies_final. Qed.
Print Assumptions C14_negated_sig_verifies.

(* serialisation of a curve point parses back to the point *)
Theorem C14_compress_parse : prime p -> sqrt_correct -> forall P bs,
  on_curve P = true -> compress P = Some bs -> parse_pubkey bs = inl P.
Proof. exact compress_parse_final. Qed.
Print Assumptions C14_compress_parse.

(* ---- non-vacuity: the model computes; key 1 has public key G, and signing
        message 2 with key 1 and nonce 3 succeeds with a low s *)
Example C14_example :
  pubkey_of_seckey 1 = compress G /\
  exists r s v, sign 1 2 3 = Some (r, s, v) /\ 0 < r /\ 0 < s <= halfOrder /\ v < 4.
Proof. exact example_sign. Qed.
Print Assumptions C14_example.

(* ---- the 10x26-bit limb arithmetic of the field IS arithmetic modulo p.
   The optimised field code (src/cipher/secp256k1-go/secp256k1-go2/field.go) is
   TRANSLATED on every run (Gen/FieldLimbs.v; translator/stage4.go: a Field is its
   ten limbs, a modified pointer receiver is returned, `for c != 0` is a fuelled
   loop) and proved against the vocabulary of Model/FieldSpec.v:
     val f       = sum of n_i * 2^(26 i)
     mag m f     : limb i <= m * (2^26 - 1), top limb <= m * (2^22 - 1)
     canon f     : mag 1 f and val f < p              norm_post V l : canon l /\ val l = V mod p
     norm_pre f  : n_0 < 2^32, n_i <= 2^32 - 64 (i >= 1) — no (c >> 26) + n[i] can wrap
     returns Q r : r = Val a with Q a — in particular no Panic: the loop fuel sufficed.
   Proofs: Proofs/FieldLimbs.v. Mul / Sqr / Inv / Sqrt are NOT covered here (they are
   compared with the model by the run-time correspondence only). *)
From Sky Require Import Base.Uint Model.FieldSpec Gen.FieldLimbs Proofs.FieldLimbs.

(* Normalize: canonical result, same value modulo p, at most two folds *)
Theorem C14_Normalize_correct : forall n0 n1 n2 n3 n4 n5 n6 n7 n8 n9,
  norm_pre (n0, n1, n2, n3, n4, n5, n6, n7, n8, n9) ->
  returns (norm_post (val (n0, n1, n2, n3, n4, n5, n6, n7, n8, n9)))
    (Field_Normalize n0 n1 n2 n3 n4 n5 n6 n7 n8 n9).
Proof. exact Normalize_correct. Qed.
Print Assumptions C14_Normalize_correct.

(* the library's bookkeeping: anything of magnitude <= 64 may be normalised *)
Theorem C14_Normalize_magnitude : forall m n0 n1 n2 n3 n4 n5 n6 n7 n8 n9, 0 <= m <= 64 ->
  mag m (n0, n1, n2, n3, n4, n5, n6, n7, n8, n9) ->
  returns (norm_post (val (n0, n1, n2, n3, n4, n5, n6, n7, n8, n9)))
    (Field_Normalize n0 n1 n2 n3 n4 n5 n6 n7 n8 n9).
Proof. exact Normalize_mag. Qed.
Print Assumptions C14_Normalize_magnitude.

(* without the bound the function is wrong (a uint32 addition wraps) *)
Theorem C14_Normalize_unbounded_refuted :
  exists n0 n1, in_u 32 n0 /\ in_u 32 n1 /\
    exists l, Field_Normalize n0 n1 0 0 0 0 0 0 0 0 = Val l /\
              val l <> val (n0, n1, 0, 0, 0, 0, 0, 0, 0, 0) mod p.
Proof. exact Normalize_unbounded_refuted. Qed.
Print Assumptions C14_Normalize_unbounded_refuted.

(* the code before the fix 234fc8ec9 (single fold) does NOT satisfy the statement:
   magnitude-2 witness, on which the regenerated code is right *)
Theorem C14_Normalize_single_fold_refuted :
  exists f, mag 2 f /\
    (let '(n0, n1, n2, n3, n4, n5, n6, n7, n8, n9) := f in
     val (Normalize_single_fold n0 n1 n2 n3 n4 n5 n6 n7 n8 n9) <> val f mod p /\
     exists l, Field_Normalize n0 n1 n2 n3 n4 n5 n6 n7 n8 n9 = Val l /\ val l = val f mod p).
Proof. exact Normalize_single_fold_refuted. Qed.
Print Assumptions C14_Normalize_single_fold_refuted.

Theorem C14_SetAdd_correct : forall m1 m2 f0 f1 f2 f3 f4 f5 f6 f7 f8 f9 a0 a1 a2 a3 a4 a5 a6 a7 a8 a9,
  mag m1 (f0, f1, f2, f3, f4, f5, f6, f7, f8, f9) -> mag m2 (a0, a1, a2, a3, a4, a5, a6, a7, a8, a9) ->
  m1 + m2 <= 64 ->
  returns (fun r => mag (m1 + m2) r /\
                    val r = val (f0, f1, f2, f3, f4, f5, f6, f7, f8, f9) + val (a0, a1, a2, a3, a4, a5, a6, a7, a8, a9))
    (Field_SetAdd f0 f1 f2 f3 f4 f5 f6 f7 f8 f9 a0 a1 a2 a3 a4 a5 a6 a7 a8 a9).
Proof. exact SetAdd_correct. Qed.
Print Assumptions C14_SetAdd_correct.

Theorem C14_MulInt_correct : forall m a f0 f1 f2 f3 f4 f5 f6 f7 f8 f9,
  mag m (f0, f1, f2, f3, f4, f5, f6, f7, f8, f9) -> 0 <= a -> m * a <= 64 ->
  returns (fun r => mag (m * a) r /\ val r = a * val (f0, f1, f2, f3, f4, f5, f6, f7, f8, f9))
    (Field_MulInt f0 f1 f2 f3 f4 f5 f6 f7 f8 f9 a).
Proof. exact MulInt_correct. Qed.
Print Assumptions C14_MulInt_correct.

(* Negate(m): (m+1) p - a (the constants in the code are the limbs of p) *)
Theorem C14_Negate_correct : forall m f0 f1 f2 f3 f4 f5 f6 f7 f8 f9,
  mag m (f0, f1, f2, f3, f4, f5, f6, f7, f8, f9) -> 0 <= m <= 63 ->
  returns (fun r => mag (m + 1) r /\ val r = (m + 1) * p - val (f0, f1, f2, f3, f4, f5, f6, f7, f8, f9))
    (Field_Negate f0 f1 f2 f3 f4 f5 f6 f7 f8 f9 m).
Proof. exact Negate_correct. Qed.
Print Assumptions C14_Negate_correct.

(* the group code's pattern a.Negate(&t,1); t.SetAdd(b); t.Normalize() stays inside the
   premises and computes (b - a) mod p *)
Theorem C14_Negate_SetAdd_Normalize : forall a0 a1 a2 a3 a4 a5 a6 a7 a8 a9 b0 b1 b2 b3 b4 b5 b6 b7 b8 b9,
  mag 1 (a0, a1, a2, a3, a4, a5, a6, a7, a8, a9) -> mag 1 (b0, b1, b2, b3, b4, b5, b6, b7, b8, b9) ->
  exists t s r,
    Field_Negate a0 a1 a2 a3 a4 a5 a6 a7 a8 a9 1 = Val t /\
    (let '(t0, t1, t2, t3, t4, t5, t6, t7, t8, t9) := t in
     Field_SetAdd t0 t1 t2 t3 t4 t5 t6 t7 t8 t9 b0 b1 b2 b3 b4 b5 b6 b7 b8 b9 = Val s) /\
    (let '(s0, s1, s2, s3, s4, s5, s6, s7, s8, s9) := s in
     Field_Normalize s0 s1 s2 s3 s4 s5 s6 s7 s8 s9 = Val r) /\
    canon r /\
    val r = (val (b0, b1, b2, b3, b4, b5, b6, b7, b8, b9) - val (a0, a1, a2, a3, a4, a5, a6, a7, a8, a9)) mod p.
Proof. exact Negate_SetAdd_Normalize. Qed.
Print Assumptions C14_Negate_SetAdd_Normalize.

Theorem C14_IsOdd_correct : forall n0 n1 n2 n3 n4 n5 n6 n7 n8 n9,
  Field_IsOdd n0 n1 n2 n3 n4 n5 n6 n7 n8 n9 = Val (Z.odd (val (n0, n1, n2, n3, n4, n5, n6, n7, n8, n9))).
Proof. exact IsOdd_correct. Qed.
Print Assumptions C14_IsOdd_correct.

Theorem C14_IsZero_correct : forall n0 n1 n2 n3 n4 n5 n6 n7 n8 n9,
  reduced (n0, n1, n2, n3, n4, n5, n6, n7, n8, n9) ->
  Field_IsZero n0 n1 n2 n3 n4 n5 n6 n7 n8 n9 = Val (val (n0, n1, n2, n3, n4, n5, n6, n7, n8, n9) =? 0).
Proof. exact IsZero_correct. Qed.
Print Assumptions C14_IsZero_correct.

(* reduced representations are unique, so Equals decides equality of the values *)
Theorem C14_Equals_correct : forall n0 n1 n2 n3 n4 n5 n6 n7 n8 n9 m0 m1 m2 m3 m4 m5 m6 m7 m8 m9,
  reduced (n0, n1, n2, n3, n4, n5, n6, n7, n8, n9) -> reduced (m0, m1, m2, m3, m4, m5, m6, m7, m8, m9) ->
  Field_Equals n0 n1 n2 n3 n4 n5 n6 n7 n8 n9 m0 m1 m2 m3 m4 m5 m6 m7 m8 m9
  = Val (val (n0, n1, n2, n3, n4, n5, n6, n7, n8, n9) =? val (m0, m1, m2, m3, m4, m5, m6, m7, m8, m9)).
Proof. exact Equals_correct. Qed.
Print Assumptions C14_Equals_correct.

(* ---- bytes <-> limbs (Proofs/FieldBytes.v): SetB32 / GetB32, the unrolled 2-bit chunk
   loops. be_val = big-endian value (Model/Secp.v), l32 = the 32 bytes GetB32 writes. *)
From Sky Require Import Proofs.FieldBytes.

Theorem C14_SetB32_correct : forall a0 a1 a2 a3 a4 a5 a6 a7 a8 a9 a10 a11 a12 a13 a14 a15 a16 a17 a18 a19 a20 a21 a22 a23 a24 a25 a26 a27 a28 a29 a30 a31,
  let bs := [a0; a1; a2; a3; a4; a5; a6; a7; a8; a9; a10; a11; a12; a13; a14; a15; a16; a17; a18; a19; a20; a21; a22; a23; a24; a25; a26; a27; a28; a29; a30; a31] in
  Forall (fun a => 0 <= a < 256) bs ->
  returns (fun r => reduced r /\ val r = be_val bs)
    (Field_SetB32 a0 a1 a2 a3 a4 a5 a6 a7 a8 a9 a10 a11 a12 a13 a14 a15 a16 a17 a18 a19 a20 a21 a22 a23 a24 a25 a26 a27 a28 a29 a30 a31).
Proof. exact SetB32_correct. Qed.
Print Assumptions C14_SetB32_correct.

Theorem C14_GetB32_correct : forall n0 n1 n2 n3 n4 n5 n6 n7 n8 n9,
  reduced (n0, n1, n2, n3, n4, n5, n6, n7, n8, n9) ->
  returns (fun t => Forall (fun b => 0 <= b < 256) (l32 t) /\ be_val (l32 t) = val (n0, n1, n2, n3, n4, n5, n6, n7, n8, n9))
    (Field_GetB32 n0 n1 n2 n3 n4 n5 n6 n7 n8 n9).
Proof. exact GetB32_correct. Qed.
Print Assumptions C14_GetB32_correct.

(* round trips *)
Theorem C14_SetB32_GetB32 : forall a0 a1 a2 a3 a4 a5 a6 a7 a8 a9 a10 a11 a12 a13 a14 a15 a16 a17 a18 a19 a20 a21 a22 a23 a24 a25 a26 a27 a28 a29 a30 a31,
  let bs := [a0; a1; a2; a3; a4; a5; a6; a7; a8; a9; a10; a11; a12; a13; a14; a15; a16; a17; a18; a19; a20; a21; a22; a23; a24; a25; a26; a27; a28; a29; a30; a31] in
  Forall (fun a => 0 <= a < 256) bs ->
  exists r t,
    Field_SetB32 a0 a1 a2 a3 a4 a5 a6 a7 a8 a9 a10 a11 a12 a13 a14 a15 a16 a17 a18 a19 a20 a21 a22 a23 a24 a25 a26 a27 a28 a29 a30 a31 = Val r /\
    (let '(n0, n1, n2, n3, n4, n5, n6, n7, n8, n9) := r in Field_GetB32 n0 n1 n2 n3 n4 n5 n6 n7 n8 n9 = Val t) /\
    l32 t = bs.
Proof. exact SetB32_GetB32. Qed.
Print Assumptions C14_SetB32_GetB32.

Theorem C14_GetB32_SetB32 : forall n0 n1 n2 n3 n4 n5 n6 n7 n8 n9,
  reduced (n0, n1, n2, n3, n4, n5, n6, n7, n8, n9) ->
  exists t r, Field_GetB32 n0 n1 n2 n3 n4 n5 n6 n7 n8 n9 = Val t /\
    (let '(b0, b1, b2, b3, b4, b5, b6, b7, b8, b9, b10, b11, b12, b13, b14, b15, b16, b17, b18, b19, b20, b21, b22, b23, b24, b25, b26, b27, b28, b29, b30, b31) := t in
     Field_SetB32 b0 b1 b2 b3 b4 b5 b6 b7 b8 b9 b10 b11 b12 b13 b14 b15 b16 b17 b18 b19 b20 b21 b22 b23 b24 b25 b26 b27 b28 b29 b30 b31 = Val r) /\
    reduced r /\ val r = val (n0, n1, n2, n3, n4, n5, n6, n7, n8, n9).
Proof. exact GetB32_SetB32. Qed.
Print Assumptions C14_GetB32_SetB32.

(* the serialisation path: Normalize then GetB32 = the canonical 32 bytes of the value mod p *)
Theorem C14_Normalize_GetB32 : forall n0 n1 n2 n3 n4 n5 n6 n7 n8 n9,
  norm_pre (n0, n1, n2, n3, n4, n5, n6, n7, n8, n9) ->
  exists r t, Field_Normalize n0 n1 n2 n3 n4 n5 n6 n7 n8 n9 = Val r /\
    (let '(m0, m1, m2, m3, m4, m5, m6, m7, m8, m9) := r in Field_GetB32 m0 m1 m2 m3 m4 m5 m6 m7 m8 m9 = Val t) /\
    l32 t = be_bytes 32 (val (n0, n1, n2, n3, n4, n5, n6, n7, n8, n9) mod p).
Proof. exact Normalize_GetB32. Qed.
Print Assumptions C14_Normalize_GetB32.

(* ---- Field.Mul / Field.Sqr (Proofs/FieldMul.v): uint64 accumulators. For inputs of
   magnitude <= 8 (what the group code feeds them) NO accumulator wraps (every wrap of
   the regenerated code is discharged by interval arithmetic), the result stands for the
   product modulo p — exactly: val r + p * k = val a * val b with k >= 0 — and its limbs
   are reduced except limb 2, which may exceed 2^26 - 1 by at most 2^18 (mul_out):
   magnitude <= 2, so it may be multiplied, added, negated or normalised again. *)
From Sky Require Import Proofs.FieldMul.

Theorem C14_Mul_correct : forall f0 f1 f2 f3 f4 f5 f6 f7 f8 f9 b0 b1 b2 b3 b4 b5 b6 b7 b8 b9,
  mag 8 (f0, f1, f2, f3, f4, f5, f6, f7, f8, f9) -> mag 8 (b0, b1, b2, b3, b4, b5, b6, b7, b8, b9) ->
  returns (fun r => mul_out r /\ exists k, 0 <= k /\
             val r + p * k = val (f0, f1, f2, f3, f4, f5, f6, f7, f8, f9) * val (b0, b1, b2, b3, b4, b5, b6, b7, b8, b9))
    (Field_Mul f0 f1 f2 f3 f4 f5 f6 f7 f8 f9 b0 b1 b2 b3 b4 b5 b6 b7 b8 b9).
Proof. exact Mul_correct. Qed.
Print Assumptions C14_Mul_correct.

Theorem C14_Mul_mod_p : forall f0 f1 f2 f3 f4 f5 f6 f7 f8 f9 b0 b1 b2 b3 b4 b5 b6 b7 b8 b9,
  mag 8 (f0, f1, f2, f3, f4, f5, f6, f7, f8, f9) -> mag 8 (b0, b1, b2, b3, b4, b5, b6, b7, b8, b9) ->
  returns (fun r => mag 2 r /\ mul_out r /\
             val r mod p = (val (f0, f1, f2, f3, f4, f5, f6, f7, f8, f9) * val (b0, b1, b2, b3, b4, b5, b6, b7, b8, b9)) mod p)
    (Field_Mul f0 f1 f2 f3 f4 f5 f6 f7 f8 f9 b0 b1 b2 b3 b4 b5 b6 b7 b8 b9).
Proof. exact Mul_mod_p. Qed.
Print Assumptions C14_Mul_mod_p.

Theorem C14_Sqr_correct : forall f0 f1 f2 f3 f4 f5 f6 f7 f8 f9,
  mag 8 (f0, f1, f2, f3, f4, f5, f6, f7, f8, f9) ->
  returns (fun r => mul_out r /\ exists k, 0 <= k /\
             val r + p * k = val (f0, f1, f2, f3, f4, f5, f6, f7, f8, f9) * val (f0, f1, f2, f3, f4, f5, f6, f7, f8, f9))
    (Field_Sqr f0 f1 f2 f3 f4 f5 f6 f7 f8 f9).
Proof. exact Sqr_correct. Qed.
Print Assumptions C14_Sqr_correct.

Theorem C14_Sqr_mod_p : forall f0 f1 f2 f3 f4 f5 f6 f7 f8 f9,
  mag 8 (f0, f1, f2, f3, f4, f5, f6, f7, f8, f9) ->
  returns (fun r => mag 2 r /\ mul_out r /\
             val r mod p = (val (f0, f1, f2, f3, f4, f5, f6, f7, f8, f9) * val (f0, f1, f2, f3, f4, f5, f6, f7, f8, f9)) mod p)
    (Field_Sqr f0 f1 f2 f3 f4 f5 f6 f7 f8 f9).
Proof. exact Sqr_mod_p. Qed.
Print Assumptions C14_Sqr_mod_p.
