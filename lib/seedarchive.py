#!/usr/bin/env python3
"""lib/seedarchive.py <id> <prop> <outdir> <caught-by> <needs...>  — store a confirmed seeded change under seeded/<id>/"""
import json, os, shutil, sys
sid, prop, out, caught = sys.argv[1:5]
needs = " ".join(sys.argv[5:])
d = os.path.join("/verif/seeded", sid)
os.makedirs(d, exist_ok=True)
for f in ("patch.diff", "demo_test.go", "notes.md", "verify.log"):
    if os.path.exists(os.path.join(out, f)):
        shutil.copy(os.path.join(out, f), d)
json.dump({"id": sid, "breaks_property": prop, "needs_to_manifest": needs,
           "source": "independent sub-agent given only the property text and a scratch worktree",
           "confirmed": "lib/seedverify.sh: builds; existing tests of the touched packages pass; demo fails with the change and passes without it (verify.log)",
           "check_result": caught,
           "ran": ["lib/seedverify.sh %s …" % sid, "lib/seedtest.sh %s seeded/%s/patch.diff" % (prop, sid)]},
          open(os.path.join(d, "meta.json"), "w"), indent=1)
print("archived", d)
