#!/bin/bash
# lib/seedtest.sh <Cxx> <patch.diff> [tier]  — run a check against a scratch copy of
# /repo with the patch applied (never touches /repo). Prints the last lines of the
# check's stdout (VIOLATION / OK) and the exit status.
set -u
pid=$1; patch=$(readlink -f "$2"); tier=${3:-quick}
n=st_${pid}_$$
/verif/lib/scratch.sh $n "$patch" >/dev/null || { echo "scratch failed"; exit 2; }
(cd /tmp/vs_$n/verif && VERIF_REPO=/tmp/vs_$n/repo timeout 3000 ./check $pid --tier $tier 2>/tmp/vs_$n.err | cut -c1-400 | tail -5; echo "exit=${PIPESTATUS[0]}")
tail -3 /tmp/vs_$n.err | cut -c1-600
mkdir -p /tmp/seedtest_replays; cp /tmp/vs_$n/verif/evidence/replay/${pid}-* /tmp/seedtest_replays/ 2>/dev/null
/verif/lib/scratch.sh -d $n; rm -f /tmp/vs_$n.err
