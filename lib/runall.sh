#!/bin/bash
# lib/runall.sh <tier> [lanes] [seed]  — run every claimed check once (in /verif, against /repo) and
# print one line per property: id, exit status, wall seconds, last line of output.
tier=${1:-quick}; lanes=${2:-3}; seed=${3:-1}
out=$(mktemp -d /tmp/runall.XXXX)
one() { p=$1; t0=$(date +%s); /verif/check $p --tier $2 --seed $3 > $4/$p.log 2>&1; rc=$?; t1=$(date +%s)
  echo "$p rc=$rc wall=$((t1-t0))s $(grep -E '^(OK|VIOLATION)' $4/$p.log | tail -1 | cut -c1-160)"; }
export -f one
python3 -c "print('\n'.join('C%02d'%i for i in range(1,34)))" | xargs -P $lanes -I{} bash -c "one {} $tier $seed $out" | tee $out/summary.txt
echo "logs in $out"; grep -c "rc=0" $out/summary.txt
