#!/usr/bin/env python3
"""Print the markdown table of seeded changes (DESIGN.md section 14) from seeded/*/meta.json."""
import glob, json, os, re
print("| seed | property | needs to manifest | result of the check |")
print("|------|----------|-------------------|---------------------|")
for d in sorted(glob.glob('/verif/seeded/S*'), key=lambda d: int(re.match(r'S(\d+)', os.path.basename(d)).group(1))):
    m = json.load(open(os.path.join(d, 'meta.json')))
    print("| %s | %s | %s | %s |" % (m['id'], m['breaks_property'], m['needs_to_manifest'].replace('|', '/'), m['check_result'].replace('|', '/').replace('\n', ' ')))
