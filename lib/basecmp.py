#!/usr/bin/env python3
"""lib/basecmp.py <go-test-json> — compare a guard-off test run with /root/.vp/BASELINE.json stable_pass."""
import json, sys
b = json.load(open('/root/.vp/BASELINE.json'))
stable = set(b['stable_pass'])
res = {}
for line in open(sys.argv[1], errors='replace'):
    try:
        e = json.loads(line)
    except Exception:
        continue
    if e.get('Test') and e.get('Action') in ('pass', 'fail', 'skip'):
        res[e['Package'] + '::' + e['Test']] = e['Action']
failed = sorted(k for k in stable if res.get(k) == 'fail')
missing = sorted(k for k in stable if k not in res)
print("stable_pass:", len(stable), "ran:", len(res), "stable failed:", len(failed), "stable missing:", len(missing))
for k in failed[:40]:
    print("FAIL", k)
from collections import Counter
print(Counter(k.split('::')[0] for k in missing).most_common(10))
newfail = sorted(k for k, v in res.items() if v == 'fail' and k not in stable)
print("non-stable failures:", newfail[:20])
