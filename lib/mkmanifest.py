#!/usr/bin/env python3
"""Regenerate /verif/MANIFEST.json from lib/registry.py."""
import json
import os
import sys

sys.path.insert(0, os.path.dirname(os.path.abspath(__file__)))
import glob

ROOT = os.path.dirname(os.path.dirname(os.path.abspath(__file__)))
CLAIMED = {}
for f in sorted(glob.glob(os.path.join(ROOT, "lib", "registry.d", "C*.json"))):
    CLAIMED[os.path.basename(f)[:-5]] = json.load(open(f))
NOT_YET = "check under construction in this round; will be claimed once its theorem and correspondence run"
NOT_APPLICABLE = {}
try:
    NOT_APPLICABLE = json.load(open(os.path.join(ROOT, "lib", "registry.d", "not_applicable.json")))
except OSError:
    pass
# merge known-findings fragments into the single committed file
findings = []
for f in sorted(glob.glob(os.path.join(ROOT, "known_findings.d", "*.json"))):
    findings += json.load(open(f)).get("findings", [])
json.dump({"_comment": "merged from known_findings.d/*.json by lib/mkmanifest.py; status known = reported as KNOWN-FINDING and not counted; status fixed = suppresses nothing", "findings": findings},
          open(os.path.join(ROOT, "known_findings.json"), "w"), indent=1)
props = [json.loads(l)["id"] for l in open(os.path.join(ROOT, "properties.jsonl"))]
hooks = []
try:
    hooks = [l.split()[0] for l in open(os.path.join(ROOT, "MANIFEST.hooks")) if l.strip() and not l.startswith("#")]
except OSError:
    pass
m = {
    "version": 1,
    "setup_cmd": "bash lib/setup.sh",
    "hooks": {
        "guard": "verif",
        "enable": "go build -tags verif (the harness under /verif/harness is built with -tags verif against /repo via a replace directive)",
        "baseline_off_cmd": "cd /repo && go test -mod=mod -json -vet=off -count=1 -timeout 25m ./...",
        "source_commits": hooks,
        "add_only": True,
    },
    "engines": [{"name": "coq-skycoin", "path": "/verif/coq", "serves_properties": sorted(CLAIMED),
                 "kind_free_text": "Coq 8.16 development: Gen/ regenerated from /repo by /verif/translator, hand models in Model/, proofs in Proofs/, statements in Properties/; correspondence by /verif/harness (Go, tag verif) + vm_compute on generated cases files"}],
    "checks": [],
    "not_applicable": [],
    "notes": "All checks: ./check <id> --tier quick|thorough. Known findings: known_findings.json. Design: DESIGN.md.",
}
for p in props:
    if p in CLAIMED:
        c = CLAIMED[p]
        m["checks"].append({
            "property_id": p,
            "quick_cmd": "./check %s --tier quick" % p,
            "thorough_cmd": "./check %s --tier thorough" % p,
            "evidence_file": "/verif/evidence/%s.json" % p,
            "replay_cmd_template": "./check %s --replay {path}" % p,
            "engine": "coq-skycoin",
            "level_claimed": {"category": c.get("category", "proof"), "text": c["text"], "design_ref": "DESIGN.md " + c.get("design_ref", "")},
            "level_note": c["note"],
            "technique": c["technique"],
        })
    else:
        m["not_applicable"].append({"property_id": p, "reason": NOT_APPLICABLE.get(p, NOT_YET)})
json.dump(m, open(os.path.join(ROOT, "MANIFEST.json"), "w"), indent=1)
print("claimed:", len(m["checks"]), "not claimed:", len(m["not_applicable"]))
