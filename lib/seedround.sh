#!/bin/bash
# seedround.sh setup <N> <Cxx...>   : create worktrees /tmp/seed<N>_<Cxx> and out dirs with property.json, avoid.txt, instructions
# seedround.sh verify <N> <Cxx...>  : verify each seeder's claim (lib/seedverify.sh) and run the property's check on it (lib/seedtest.sh), 6 at a time
# seedround.sh clean <N> <Cxx...>   : remove the worktrees
set -u
cmd=$1; N=$2; shift 2
case $cmd in
setup)
  sed "s/seedN_/seed${N}_/g" /verif/seeded/_protocol/INSTRUCTIONS.md > /tmp/seed${N}_INSTRUCTIONS.md
  for id in "$@"; do
    out=/tmp/seed${N}_${id}_out; mkdir -p $out
    git -C /repo worktree add --detach /tmp/seed${N}_$id HEAD >/dev/null 2>&1
    python3 - "$id" "$out" <<'PY'
import json, sys, glob, os
pid, out = sys.argv[1], sys.argv[2]
for l in open('/verif/properties.jsonl'):
    p = json.loads(l)
    if p['id'] == pid:
        json.dump(p, open(out + '/property.json', 'w'), indent=1)
with open(out + '/avoid.txt', 'w') as f:
    for d in sorted(glob.glob('/verif/seeded/S*')):
        m = json.load(open(d + '/meta.json'))
        if m['breaks_property'] == pid:
            f.write("- %s: needs %s\n" % (m['id'].split('-', 2)[2], m['needs_to_manifest']))
PY
  done;;
verify)
  one() { N=$1; id=$2; out=/tmp/seed${N}_${id}_out
    pkg=$(python3 -c "import json;print(json.load(open('$out/demo.json'))['pkgdir'])"); rx=$(python3 -c "import json;print(json.load(open('$out/demo.json'))['run'])"); tests=$(python3 -c "import json;print(json.load(open('$out/demo.json'))['tests'])")
    { /verif/lib/seedverify.sh ${id}r$N $out "$pkg" "$tests" "$rx"; /verif/lib/seedtest.sh $id $out/patch.diff 2>&1 | grep -v KNOWN-FINDING | tail -4 | cut -c1-500; } > /tmp/seedres${N}_$id.txt 2>&1; }
  export -f one
  printf '%s\n' "$@" | xargs -P 6 -I{} bash -c "one $N {}"
  echo done > /tmp/seedround${N}.done;;
clean)
  for id in "$@"; do git -C /repo worktree remove --force /tmp/seed${N}_$id 2>/dev/null; done; git -C /repo worktree prune;;
esac
