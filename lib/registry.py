"""Registry of claimed properties -> MANIFEST.json entries (lib/mkmanifest.py)."""

# pid -> dict(text, note, technique, design_ref, category)
CLAIMED = {
    "C31": dict(
        text="Coq theorems (for all 64/32-bit arguments) that the Gallina regenerated from mathutil, fee and UxOut.CoinHours on every run equals the mathematical specification (error exactly when the result does not fit; required fee = ceiling; accrued hours = hours + floor(coins*dt/3.6e9)); the translator is validated on each run against the running implementation on boundary-biased points.",
        note="Trusts: Coq kernel; the Go->Gallina translator for the listed functions (validated by translation validation on sampled points each run); Go int = 64 bit; harness printer.",
        technique="Coq proof over regenerated Gallina (translator) + translation validation",
        design_ref="6.31",
    ),
}

NOT_YET = "check under construction in this round; will be claimed once its theorem and correspondence run"
NOT_APPLICABLE = {}
