#!/bin/bash
# lib/scratch.sh <name> [patch.diff]  — make an isolated copy for mutation testing:
#   /tmp/vs_<name>/repo   git worktree of /repo (HEAD) [+ patch applied]
#   /tmp/vs_<name>/verif  copy of /verif including compiled .vo (no rebuild needed)
# Run a check there with:   (cd /tmp/vs_<name>/verif && VERIF_REPO=/tmp/vs_<name>/repo ./check Cxx)
# Remove with:              lib/scratch.sh -d <name>
set -e
if [ "$1" = "-d" ]; then
  n=$2; git -C /repo worktree remove --force /tmp/vs_$n/repo 2>/dev/null || true; rm -rf /tmp/vs_$n; git -C /repo worktree prune; exit 0
fi
n=$1; d=/tmp/vs_$n
[ -e $d ] && { echo "$d exists"; exit 1; }
mkdir -p $d
git -C /repo worktree add --detach $d/repo HEAD >/dev/null 2>&1
# uncommitted (tracked) changes of /repo are carried over too
git -C /repo diff HEAD | (cd $d/repo && git apply --allow-empty 2>/dev/null || true)
if [ -n "$2" ]; then (cd $d/repo && git apply "$2"); fi
rsync -a --exclude .git --exclude 'evidence/replay' --exclude 'coq/Cases/*' --exclude 'build/data_*' /verif/ $d/verif/ || [ $? -eq 24 ]
echo "$d ready"
