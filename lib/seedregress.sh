#!/bin/bash
# lib/seedregress.sh [parallel] [out]  — re-run every archived seeded change against the
# property's CURRENT check (isolated copies, /repo untouched) and write one line per seed:
#   <seed> <property> CAUGHT|MISSED|NOAPPLY|ERROR <detail>
# NOAPPLY: the patch no longer applies to /repo HEAD (a later fix: commit changed the lines).
par=${1:-5}; out=${2:-/verif/seeded/REGRESSION.txt}
tmp=$(mktemp -d /tmp/seedregress.XXXX)
one() {
  d=$1; tmp=$2
  s=$(basename $d); p=$(python3 -c "import json;print(json.load(open('$d/meta.json'))['breaks_property'])")
  if ! git -C /repo apply --check $d/patch.diff 2>/dev/null; then echo "$s $p NOAPPLY patch does not apply to /repo HEAD" > $tmp/$s; return; fi
  # the property's own check first, then any other check the archive entry names
  others=$(python3 -c "
import json,re;m=json.load(open('$d/meta.json'));print(' '.join(dict.fromkeys(c for c in re.findall(r'\\./check (C\\d\\d)', m['check_result']) if c != '$p')))")
  for c in $p $others; do
    r=$(/verif/lib/seedtest.sh $c $d/patch.diff 2>&1 | grep -v KNOWN-FINDING | tail -4)
    if echo "$r" | grep -q "^VIOLATION property=$c"; then
      echo "$s $p CAUGHT by-$c $(echo "$r" | grep '^violation:' | head -1 | cut -c1-160)" > $tmp/$s; return
    elif ! echo "$r" | grep -q "exit=0"; then echo "$s $p ERROR ($c) $(echo "$r" | tr '\n' ' ' | cut -c1-200)" > $tmp/$s; return; fi
  done
  echo "$s $p MISSED (checks tried: $p $others)" > $tmp/$s
}
export -f one
ls -d /verif/seeded/S* | sort -t S -k2 -n | { if [ -n "${PROPS:-}" ]; then grep -E -- "-($(echo $PROPS | tr " " "|"))-"; else cat; fi; } | xargs -P $par -I{} bash -c "one {} $tmp"
{ echo "# regression of the seeded changes against /verif $(git -C /verif rev-parse --short HEAD), /repo $(git -C /repo rev-parse --short HEAD), $(date -u +%FT%TZ)"; cat $tmp/S* | sort -t S -k2 -n; } > $out
rm -rf $tmp
grep -c CAUGHT $out; grep -v CAUGHT $out
