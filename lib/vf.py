"""Common machinery of the skycoin Coq verification framework (see DESIGN.md 2).

Every property driver (lib/props/cNN.py) defines run(ctx) and uses the helpers
below: regenerate Gen/*.v from /repo, build the Coq development, build and
run the Go harness against /repo (tag verif), evaluate a cases file inside Coq,
write evidence, report violations / known findings.
"""
import fcntl
import hashlib
import json
import os
import re
import shutil
import subprocess
import sys
import time

ROOT = os.path.dirname(os.path.dirname(os.path.abspath(__file__)))
REPO = os.environ.get("VERIF_REPO", "/repo")
COQ = os.path.join(ROOT, "coq")
BUILD = os.path.join(ROOT, "build")
EVID = os.path.join(ROOT, "evidence")
REPLAY = os.path.join(EVID, "replay")
CASES = os.path.join(COQ, "Cases")

GOENV = dict(os.environ, GOFLAGS="-mod=mod", GOPROXY="off", GOSUMDB="off",
             GOTOOLCHAIN="local", CGO_ENABLED=os.environ.get("CGO_ENABLED", "0"))

KERNEL_TB = [
    "Coq 8.16.1 kernel + vm_compute (no native_compute); .vo built by coq_makefile/make (full, never -vos)",
    "no Axiom/Parameter/Admitted in the development (grep gate lib/gate.sh run by every check)",
]


def log(*a):
    print(*a, file=sys.stderr, flush=True)


def sh(cmd, timeout=1200, cwd=ROOT, env=None, inp=None):
    """Run a command (list or shell string); returns (rc, combined output)."""
    try:
        p = subprocess.run(cmd, shell=isinstance(cmd, str), cwd=cwd, env=env, input=inp,
                           stdout=subprocess.PIPE, stderr=subprocess.STDOUT, timeout=timeout,
                           universal_newlines=True, errors="replace")
        return p.returncode, p.stdout
    except subprocess.TimeoutExpired as e:
        out = e.stdout or ""
        if isinstance(out, bytes):
            out = out.decode("utf-8", "replace")
        return 124, out + "\n[timeout after %ss]" % timeout


class Lock:
    def __init__(self, name):
        os.makedirs(BUILD, exist_ok=True)
        self.path = os.path.join(BUILD, name)

    def __enter__(self):
        self.f = open(self.path, "w")
        fcntl.flock(self.f, fcntl.LOCK_EX)
        return self

    def __exit__(self, *a):
        fcntl.flock(self.f, fcntl.LOCK_UN)
        self.f.close()


class Ctx:
    def __init__(self, pid, tier, seed):
        self.pid = pid
        self.tier = tier
        self.seed = seed
        self.t0 = time.time()
        self.coverage = {}
        self.assumptions = []
        self.violations = []      # list of (replay_path, found_input: bool, summary)
        self.known = []           # list of strings printed as KNOWN-FINDING
        self.notes = []

    def clear_replays(self):
        """stale replay files of this property are removed at the start of a run
        (not when replaying one of them)"""
        try:
            for f in os.listdir(REPLAY):
                if f.startswith(self.pid + "-"):
                    os.remove(os.path.join(REPLAY, f))
        except OSError:
            pass

    def thorough(self):
        return self.tier == "thorough"

    def pick(self, quick, thorough):
        return thorough if self.thorough() else quick


# ---------------------------------------------------------------- gates

def gate():
    """Refuse to run on a development that declares axioms or admits proofs."""
    rc, out = sh(["bash", os.path.join(ROOT, "lib", "gate.sh")])
    if rc != 0:
        raise SystemExit("gate failed:\n" + out)


# ---------------------------------------------------------------- translator

def build_translator():
    with Lock("translator.lock"):
        rc, out = sh(["go", "build", "-o", os.path.join(BUILD, "translator"), "."],
                     cwd=os.path.join(ROOT, "translator"), env=GOENV, timeout=600)
    if rc != 0:
        raise SystemExit("translator build failed:\n" + out)


FUNCTION_UNITS = "Mathutil,Fee,CoinHours,Page,Droplet"


def regen(units=True):
    """Regenerate coq/Gen/*.v from /repo. `units`: True = the function units
    (arithmetic core), or a list of unit names (e.g. ["Fee", "Schemas"]; imports
    are closed automatically). Returns (ok, message)."""
    build_translator()
    only = FUNCTION_UNITS if units is True else ",".join(units)
    with Lock("coq.lock"):
        rc, out = sh([os.path.join(BUILD, "translator"), "-repo", REPO, "-out", os.path.join(COQ, "Gen"),
                      "-only", only, "-manifest", os.path.join(BUILD, "gen_manifest_%d.json" % os.getpid())],
                     env=GOENV, timeout=900)
    return rc == 0, out.strip()


def gen_manifest():
    p = os.path.join(BUILD, "gen_manifest_%d.json" % os.getpid())
    try:
        m = json.load(open(p))
        os.remove(p)
        return m
    except Exception:
        return []


# ---------------------------------------------------------------- coq

COQFLAGS = ["-Q", COQ, "Sky", "-w", "-notation-overridden,-deprecated-hint-without-locality,-deprecated-instance-without-locality,-deprecated-syntactic-definition"]


def coq_make(targets, timeout=3000):
    """make the given .vo targets (paths relative to coq/). Returns (ok, log)."""
    with Lock("coq.lock"):
        mk = os.path.join(COQ, "Makefile")
        cp = os.path.join(COQ, "_CoqProject")
        if not os.path.exists(mk) or os.path.getmtime(mk) < os.path.getmtime(cp):
            rc, out = sh(["coq_makefile", "-f", "_CoqProject", "-o", "Makefile"], cwd=COQ)
            if rc != 0:
                return False, out
        rc, out = sh(["make", "-j16"] + list(targets), cwd=COQ, timeout=timeout)
    return rc == 0, out


def first_error(mklog):
    """Extract 'File ..., line ...: Error ...' from a make log."""
    m = re.search(r'(File "[^"]+", line \d+, characters [-\d]+:\s*\n(?:.*\n){0,12})', mklog)
    return m.group(1).strip() if m else mklog[-1500:]


def failing_lemma(mklog):
    """Name of the lemma whose proof script broke (by file/line lookup)."""
    m = re.search(r'File "([^"]+)", line (\d+)', mklog)
    if not m:
        return None
    path = m.group(1)
    if not os.path.isabs(path):
        path = os.path.join(COQ, path)
    try:
        lines = open(path).read().split("\n")[: int(m.group(2))]
    except Exception:
        return None
    for ln in reversed(lines):
        mm = re.match(r"\s*(?:Lemma|Theorem|Example|Corollary|Definition|Fixpoint)\s+([\w']+)", ln)
        if mm:
            return "%s:%s" % (os.path.relpath(path, COQ), mm.group(1))
    return os.path.relpath(path, COQ)


def coq_properties(pid):
    """(Re)compile Properties/<pid>.v alone, capturing Print Assumptions.
    Its dependencies must have been built. Returns dict with theorems/assumptions."""
    src = os.path.join(COQ, "Properties", pid + ".v")
    text = open(src).read()
    names = re.findall(r"^\s*(?:Theorem|Lemma|Example|Corollary)\s+([\w']+)", text, re.M)
    with Lock("coq.lock"):
        rc, out = sh(["coqc"] + COQFLAGS + [src], cwd=COQ, timeout=1200)
    res = {"ok": rc == 0, "theorems": names, "log": out, "axioms": {}}
    if rc == 0:
        # split the output per Print Assumptions
        chunks = re.split(r"(?=Closed under the global context|Axioms:)", out)
        chunks = [c for c in chunks if c.startswith("Closed") or c.startswith("Axioms:")]
        printed = re.findall(r"^\s*Print Assumptions\s+([\w']+)", text, re.M)
        for n, c in zip(printed, chunks):
            if c.startswith("Closed"):
                res["axioms"][n] = []
            else:
                res["axioms"][n] = [l.strip() for l in c.split("\n")[1:] if l.strip()]
    return res


def coq_eval(path, timeout=3000):
    """coqc a cases file; returns (ok, output, values) where values maps each
    printed name `x = <term> : T` to the raw term text."""
    rc, out = sh(["coqc"] + COQFLAGS + [path], cwd=COQ, timeout=timeout)
    vals = {}
    for m in re.finditer(r"^([\w']+) =\s*(.*?)\n\s*: ", out, re.M | re.S):
        vals[m.group(1)] = re.sub(r"\s+", " ", m.group(2)).strip()
    for ext in (".vo", ".vok", ".vos", ".glob"):
        try:
            os.remove(path[:-2] + ext)
        except OSError:
            pass
    try:
        os.remove(os.path.join(os.path.dirname(path), "." + os.path.basename(path)[:-2] + ".aux"))
    except OSError:
        pass
    return rc == 0, out, vals


def zlist(term):
    """Parse a printed `list Z` such as `[1; 2; 3]` / `[]` / `[1%Z]` to ints."""
    term = term.strip()
    if term in ("[]", "nil"):
        return []
    inner = term.strip("[]")
    return [int(x.replace("%Z", "").strip().strip("()")) for x in inner.split(";") if x.strip()]


# ---------------------------------------------------------------- harness

def build_harness(cmd):
    """Build harness/<cmd> (package main) against /repo's working tree with -tags verif."""
    hd = os.path.join(ROOT, "harness")
    with Lock("harness.lock"):
        shutil.copyfile(os.path.join(REPO, "go.sum"), os.path.join(hd, "go.sum"))
        gm = open(os.path.join(hd, "go.mod")).read()
        want = re.sub(r"replace github.com/skycoin/skycoin => \S+", "replace github.com/skycoin/skycoin => " + REPO, gm)
        if want != gm:   # scratch copies (lib/scratch.sh) point the harness at their own worktree
            open(os.path.join(hd, "go.mod"), "w").write(want)
        rc, out = sh(["go", "build", "-tags", "verif", "-o", os.path.join(BUILD, "harness_" + cmd), "./" + cmd],
                     cwd=hd, env=GOENV, timeout=1200)
    return rc == 0, out


def harness(cmd, args, timeout=3000, env_extra=None):
    env = dict(GOENV)
    if env_extra:
        env.update(env_extra)
    rc, out = sh([os.path.join(BUILD, "harness_" + cmd)] + [str(a) for a in args], env=env, timeout=timeout)
    return rc, out


def cases_path(pid, seed, suffix=""):
    os.makedirs(CASES, exist_ok=True)
    # the file name is a Coq module name: no '-' (search rounds use tags like "-s0")
    return os.path.join(CASES, "cases_%s_%s%s_%d.v" % (pid, seed, re.sub(r"\W", "_", suffix), os.getpid()))


def assemble_cases(path, header, data_file, template):
    """cases file = header imports + harness-written data + static eval template."""
    with open(path, "w") as f:
        f.write(header + "\n")
        f.write(open(data_file).read() + "\n")
        f.write(open(os.path.join(COQ, "Corr", template)).read() if not template.startswith("\n") else template)


# ---------------------------------------------------------------- findings

def load_known(pid):
    """Known findings of a property: the merged known_findings.json plus the
    property's own fragment (so a fragment works before mkmanifest merges it)."""
    fs = []
    for p in (os.path.join(ROOT, "known_findings.json"), os.path.join(ROOT, "known_findings.d", pid + ".json")):
        try:
            fs += json.load(open(p)).get("findings", [])
        except Exception:
            pass
    out, seen = [], set()
    for f in fs:
        k = json.dumps(f, sort_keys=True)
        if f.get("property") == pid and f.get("status") == "known" and k not in seen:
            seen.add(k)
            out.append(f)
    return out


def match_known(known, case):
    """A finding matches a failing case when every key of finding['match'] has the
    same value in the case (cases are flat JSON objects)."""
    for f in known:
        m = f.get("match", {})
        if m and all(str(case.get(k)) == str(v) for k, v in m.items()):
            return f
    return None


# ---------------------------------------------------------------- reporting

def write_replay(ctx, obj, tag=""):
    os.makedirs(REPLAY, exist_ok=True)
    p = os.path.join(REPLAY, "%s-%s%s.json" % (ctx.pid, ctx.seed, tag))
    json.dump(obj, open(p, "w"), indent=1, default=str)
    return p


def violation(ctx, obj, found_input, summary, tag=""):
    if len(ctx.violations) >= 5:      # keep a handful of replay files, count the rest
        ctx.suppressed = getattr(ctx, "suppressed", 0) + 1
        return
    obj = dict(obj)
    obj.setdefault("property", ctx.pid)
    obj["found_failing_input"] = bool(found_input)
    obj["summary"] = summary
    p = write_replay(ctx, obj, tag)
    ctx.violations.append((p, found_input, summary))


def known_finding(ctx, text):
    if text not in ctx.known:
        ctx.known.append(text)


def finish(ctx, level="proof"):
    cov = dict(ctx.coverage)
    cov.setdefault("trusted_base", [])
    ev = {
        "property_id": ctx.pid,
        "tier": ctx.tier,
        "seed": ctx.seed,
        "level": level,
        "coverage": cov,
        "assumptions": ctx.assumptions,
        "wall_s": round(time.time() - ctx.t0, 2),
        "violations": len(ctx.violations),
        "known_findings_reported": ctx.known,
        "notes": ctx.notes,
    }
    os.makedirs(EVID, exist_ok=True)
    tmp = os.path.join(EVID, ctx.pid + ".json.tmp")
    json.dump(ev, open(tmp, "w"), indent=1, default=str)
    os.replace(tmp, os.path.join(EVID, ctx.pid + ".json"))
    for k in ctx.known:
        print("KNOWN-FINDING: property=%s %s" % (ctx.pid, k))
    if ctx.violations:
        # one line per property, first replay; others listed in the replay dir
        p, found, summary = sorted(ctx.violations, key=lambda v: not v[1])[0]
        log("violation: " + (summary if len(summary) < 600 else summary[:600] + " …[truncated; full case in the replay file]"))
        print("VIOLATION property=%s replay=%s%s" % (ctx.pid, p, "" if found else " no-failing-input-found"))
        return 1
    print("OK property=%s tier=%s seed=%s wall=%.1fs" % (ctx.pid, ctx.tier, ctx.seed, time.time() - ctx.t0))
    return 0


# ---------------------------------------------------------------- proof step

def prove(ctx, pid=None, extra_targets=()):
    """Build Properties/<pid>.vo and its dependencies; record obligations.
    Returns (ok, info). On failure info has 'error' and 'lemma'."""
    pid = pid or ctx.pid
    ok, mklog = coq_make(["Properties/%s.vo" % pid] + list(extra_targets))
    info = {}
    if not ok:
        info["error"] = first_error(mklog)
        info["lemma"] = failing_lemma(mklog)
        src = open(os.path.join(COQ, "Properties", pid + ".v")).read()
        names = re.findall(r"^\s*(?:Theorem|Lemma|Example|Corollary)\s+([\w']+)", src, re.M)
        ctx.coverage.update({"obligations": len(names), "discharged": 0,
                             "checker_cmd": "make -C coq Properties/%s.vo (coq_makefile, coqc 8.16.1)" % pid,
                             "proof_error": info["error"][:2000]})
        return False, info
    pr = coq_properties(pid)
    axioms = sorted({a for l in pr["axioms"].values() for a in l})
    ctx.coverage.update({
        "obligations": len(pr["theorems"]),
        "discharged": len(pr["theorems"]) if pr["ok"] else 0,
        "checker_cmd": "make -C coq Properties/%s.vo && coqc Properties/%s.v (coq_makefile, coqc 8.16.1, Print Assumptions under every theorem)" % (pid, pid),
        "theorems": pr["theorems"],
        "print_assumptions": {k: (v if v else "Closed under the global context") for k, v in pr["axioms"].items()},
    })
    tb = list(KERNEL_TB)
    tb.append("axioms reported by Print Assumptions: " + (", ".join(axioms) if axioms else "none (all theorems closed under the global context)"))
    ctx.coverage["trusted_base"] = tb + ctx.coverage.get("trusted_base", [])
    if not pr["ok"]:
        info["error"] = first_error(pr["log"])
        info["lemma"] = "Properties/%s.v" % pid
        return False, info
    if ctx.thorough() and os.environ.get("VERIF_NO_COQCHK") != "1":
        # independent re-check of the compiled theorems and everything they depend on
        # (reads .vo only: no build lock; coqchk has no VM, so theorems resting on big
        # vm_compute runs can take very long: bounded by a timeout and then only noted)
        rc, out = sh(["coqchk", "-silent", "-o", "-Q", COQ, "Sky", "Sky.Properties.%s" % pid], cwd=COQ,
                     timeout=int(os.environ.get("VERIF_COQCHK_TIMEOUT", "900")))
        m = re.search(r"\* Axioms:\s*(.*?)\n\s*\n", out, re.S)
        if rc == 124:
            ctx.coverage["coqchk"] = {"ok": None, "note": "timed out (coqchk re-does vm_compute conversions lazily); not counted"}
            ctx.coverage["trusted_base"].append("coqchk on Sky.Properties.%s timed out on this run (kernel check by coqc only)" % pid)
        else:
            ctx.coverage["coqchk"] = {"ok": rc == 0, "axioms": (m.group(1).strip() if m else out[-400:])}
            ctx.coverage["trusted_base"].append("coqchk -o re-checked Sky.Properties.%s and its dependencies: rc=%d, axioms: %s" % (pid, rc, (m.group(1).strip() if m else "?")))
            if rc != 0:
                info["error"] = "coqchk failed: " + out[-1500:]
                info["lemma"] = "coqchk Sky.Properties.%s" % pid
                return False, info
    return True, info


def tree_id():
    """Short id of /repo's working tree state (HEAD + diff) for the evidence."""
    rc, head = sh(["git", "-C", REPO, "rev-parse", "--short", "HEAD"])
    rc, diff = sh(["git", "-C", REPO, "diff", "HEAD", "--", "src", "cmd"])
    return head.strip() + ("+" + hashlib.sha256(diff.encode()).hexdigest()[:8] if diff.strip() else "")


# ---------------------------------------------------------------- standard flow

def _eval_groups(ctx, header, data_file, template, names, tag, bools=()):
    """Assemble and evaluate one cases file. Returns (ok, {name: [indices]}, raw output).
    `bools`: names of printed booleans that must be `true`."""
    path = cases_path(ctx.pid, ctx.seed, tag)
    assemble_cases(path, header, data_file, template)
    ok, out, vals = coq_eval(path)
    try:
        os.remove(path)
    except OSError:
        pass
    res = {}
    if ok:
        for n in names:
            if n not in vals:
                ok = False
                out += "\n[missing printed value %s]" % n
            else:
                res[n] = zlist(vals[n])
        for n in bools:
            if vals.get(n) != "true":
                ok = False
                out += "\n[boolean %s is %s, expected true]" % (n, vals.get(n))
    return ok, res, out


def _precompile_data(ctx, spec, data, seed, tag):
    """spec["precompile_data"]: compile header + harness data once into a module
    Sky.Cases.<mod> and hand the eval files a one-line `Require Import` instead of
    the data itself (large data is then parsed once, not once per eval file).
    Only definitions reach the .vo; the templates are still evaluated by coqc
    on every run. Returns the path of the small data file (None on failure)."""
    os.makedirs(CASES, exist_ok=True)
    mod = "cdata_%s_%s%s_%d" % (ctx.pid, seed, re.sub(r"\W", "_", tag), os.getpid())
    big = os.path.join(CASES, mod + ".v")
    with open(big, "w") as f:
        f.write(spec["header"] + "\n" + open(data).read() + "\n")
    rc, out = sh(["coqc", "-noglob"] + COQFLAGS + [big], cwd=COQ, timeout=3000)
    try:
        os.remove(big)
    except OSError:
        pass
    if rc != 0:
        violation(ctx, {"broken": "harness data file does not compile", "log": out[-3000:]}, False,
                  "harness data could not be loaded into Coq", tag)
        return None
    with open(data, "w") as f:
        f.write("From Sky Require Import Cases.%s.\n" % mod)
    ctx._precompiled = getattr(ctx, "_precompiled", []) + [os.path.join(CASES, mod)]
    return data


def _drop_precompiled(ctx):
    for base in getattr(ctx, "_precompiled", []):
        for ext in (".vo", ".vok", ".vos", ".glob"):
            try:
                os.remove(base + ext)
            except OSError:
                pass
        try:
            os.remove(os.path.join(os.path.dirname(base), "." + os.path.basename(base) + ".aux"))
        except OSError:
            pass
    ctx._precompiled = []


def standard_run(ctx, spec):
    """The pipeline shared by most properties (DESIGN.md 2.1).

    spec keys:
      uses_gen      regenerate Gen/*.v from /repo first (translator tie)
      cmd           harness sub-command
      budget        (quick, thorough) case budget handed to the harness (-n)
      header        Coq imports for both eval files (must not import Proofs/)
      gen_header    extra imports only for the correspondence file (Gen.*)
      groups        {group: (mismatch_name or None, propfail_name or None)}
      corr, prop    template file names under coq/Corr/
      describe      optional fn(group, case_json) -> str
      trusted_base  list of strings;  assumptions  list of strings
      search_seeds  number of extra seeds tried when a proof/correspondence broke
      extra_args    extra harness arguments
      precompile_data  True: compile header + harness data once (Sky.Cases.<mod>) and Require it from both eval files
      case_of       optional fn(side_json, group, index) -> flat case dict (default: side_json["cases"][group][index])
    """
    pid = ctx.pid
    broke = []  # (what, detail) : proof / translation / correspondence breaks
    if spec.get("uses_gen"):
        ok, msg = regen(spec["uses_gen"])
        if not ok:
            broke.append(("translation", msg[-1500:]))
            ctx.notes.append("translator: " + msg[-500:])
    proof_ok, info = prove(ctx)
    if not proof_ok:
        broke.append(("proof", "%s\n%s" % (info.get("lemma"), info.get("error"))))
    ctx.coverage["trusted_base"] = ctx.coverage.get("trusted_base", list(KERNEL_TB)) + list(spec.get("trusted_base", []))
    ctx.assumptions += list(spec.get("assumptions", []))
    if spec.get("uses_gen"):
        ctx.coverage["translated_functions"] = gen_manifest()

    ok, out = build_harness(spec["cmd"])
    if not ok:
        violation(ctx, {"broken": "harness build against /repo (tag verif) failed", "log": out[-3000:]}, False,
                  "correspondence harness does not build against the current tree")
        return

    known = load_known(pid)
    groups = spec["groups"]
    found_any = False

    def one_round(seed, tier, tag):
        nonlocal found_any
        data = os.path.join(BUILD, "data_%s_%s%s_%d.v" % (pid, seed, tag, os.getpid()))
        side = data[:-2] + ".json"
        n = spec["budget"][1] if tier in ("thorough", "search") else spec["budget"][0]
        rc, hout = harness(spec["cmd"], ["-seed", seed, "-tier", tier, "-n", n, "-out", data, "-json", side] + list(spec.get("extra_args", [])))
        if rc != 0:
            violation(ctx, {"broken": "harness run failed", "log": hout[-3000:]}, False, "harness run failed (rc=%d)" % rc, tag)
            return None
        sj = json.load(open(side))
        cases = sj.get("cases", {})
        data = _precompile_data(ctx, spec, data, seed, tag) if spec.get("precompile_data") else data
        if data is None:
            return None
        pnames = [v[1] for v in groups.values() if v[1]]
        mnames = [v[0] for v in groups.values() if v[0]]
        can_corr = bool(mnames) and not any(b[0] == "translation" for b in broke)
        pres, cres_, pok, cok, done = {}, {}, True, True, False
        if can_corr and spec.get("combined", True):
            # one coqc run evaluates both the property and the correspondence (the
            # data file dominates the cost); fall back to separate runs if it fails
            both = os.path.join(BUILD, "tmpl_%s_%d.v" % (pid, os.getpid()))
            open(both, "w").write(open(os.path.join(COQ, "Corr", spec["prop"])).read() + "\n" + open(os.path.join(COQ, "Corr", spec["corr"])).read())
            tmpl = "\n" + open(both).read()
            os.remove(both)
            ok2, res2, out2 = _eval_groups(ctx, spec["header"] + "\n" + spec.get("gen_header", ""), data, tmpl, pnames + mnames, tag + "b", spec.get("must_be_true", ()))
            if ok2:
                pres = {n: res2[n] for n in pnames}
                cres_ = {n: res2[n] for n in mnames}
                done = True
        if not done:
            # 1. the property itself on the implementation's outputs
            pok, pres, pout = _eval_groups(ctx, spec["header"], data, spec["prop"], pnames, tag + "p")
            if not pok:
                violation(ctx, {"broken": "property evaluation file does not compile", "log": pout[-3000:]}, False,
                          "decidable property could not be evaluated", tag)
            # 2. correspondence model/Gen vs implementation
            if can_corr:
                cok, cres_, cout = _eval_groups(ctx, spec["header"] + "\n" + spec.get("gen_header", ""), data, spec["corr"], mnames, tag + "c", spec.get("must_be_true", ()))
                if not cok:
                    broke.append(("correspondence", "correspondence file does not compile:\n" + cout[-2000:]))
        nfail = 0
        for g, (mn, pn) in groups.items():
            for i in pres.get(pn, []) if pn else []:
                case = spec["case_of"](sj, g, i) if spec.get("case_of") else (cases.get(g, [])[i] if i < len(cases.get(g, [])) else {"index": i})
                kf = match_known(known, dict(case, group=g))
                if kf:
                    known_finding(ctx, kf["what"])
                    continue
                nfail += 1
                found_any = True
                desc = spec["describe"](g, case) if spec.get("describe") else "%s case %s" % (g, json.dumps(case))
                violation(ctx, {"group": g, "case": case, "seed": seed, "tier": tier,
                                "replay_cmd": "./check %s --replay <this file>" % pid},
                          True, "property fails on the implementation: " + desc, tag + "-%s%d" % (g, i))
        nmis = 0
        if can_corr and cok:
            for g, (mn, pn) in groups.items():
                for i in (cres_.get(mn, []) if mn else []):
                    case = spec["case_of"](sj, g, i) if spec.get("case_of") else (cases.get(g, [])[i] if i < len(cases.get(g, [])) else {"index": i})
                    if match_known(known, dict(case, group=g)):
                        continue
                    nmis += 1
                    if nmis <= 5:
                        broke.append(("correspondence", "model and implementation differ on %s case %s" % (g, json.dumps(case))))
        for f in (data, side):
            try:
                os.remove(f)
            except OSError:
                pass
        _drop_precompiled(ctx)
        return sj, nfail, nmis

    r = one_round(ctx.seed, ctx.tier, "")
    if r is None:
        return
    sj, nfail, nmis = r
    ctx.coverage.update({
        "evaluations": sj.get("evaluations", 0),
        "distinct_nontrivial": sj.get("distinct_nontrivial", 0),
        "rule": sj.get("rule", ""),
        "samples": sj.get("samples", [])[:12],
        "distribution": sj.get("distribution", []),
        "traces_validated_against_impl": sj.get("evaluations", 0),
        "model_impl_mismatches": nmis,
        "property_failures_on_impl": nfail,
    })
    for k in spec.get("side_keys", []):
        if k in sj:
            ctx.coverage[k] = sj[k]
    def deep():
        nonlocal found_any
        # property-specific search on the implementation alone (inputs too large for
        # the model evaluation): each hit is a concrete input on which the property,
        # as stated, fails on the real code
        hits = spec["deep_search"](ctx) or []
        ctx.coverage["deep_search_hits"] = len(hits)
        for case, summary in hits[:5]:
            obj = {"group": "deep", "case": case, "no_longer_checks": [{"kind": k, "detail": d} for k, d in broke]}
            violation(ctx, obj, True, summary, "-deep")
            found_any = True
    if broke and not found_any and spec.get("deep_search") and spec.get("deep_search_first"):
        deep()
    if broke and not found_any:
        # a proof obligation or the correspondence no longer checks: search for a
        # concrete failing input with larger budgets before reporting
        for s in range(spec.get("search_seeds", 3)):
            rr = one_round(ctx.seed * 1000 + 17 + s, "search", "-s%d" % s)
            if rr is None or found_any:
                break
        ctx.coverage["search_rounds_after_break"] = s + 1
    if broke and not found_any and spec.get("deep_search") and not spec.get("deep_search_first"):
        deep()
    if broke and not found_any:
        what = "; ".join("%s: %s" % (k, d.split("\n")[0][:200]) for k, d in broke[:4])
        violation(ctx, {"no_longer_checks": [{"kind": k, "detail": d} for k, d in broke],
                        "note": "no concrete failing input was found by the search; the property is no longer shown to hold"},
                  False, what, "-broken")
