#!/bin/bash
# Gate: the Coq development declares no axioms and admits no proofs, and no
# kernel check is switched off. Run by every check and by setup.
cd "$(dirname "$0")/../coq" || exit 1
bad=$(grep -rnE '^\s*(Axiom|Axioms|Parameter|Parameters|Conjecture|Admitted|Admit Obligations)\b|\badmit\b|Unset Guard Checking|Unset Positivity Checking|Unset Universe Checking|bypass_check|-type-in-type|-impredicative-set' \
  --include='*.v' --include='_CoqProject' . | grep -v '^./Cases/' )
if [ -n "$bad" ]; then echo "GATE: forbidden declarations:"; echo "$bad"; exit 1; fi
# Variable/Hypothesis outside a Section
for f in $(find . -name '*.v' -not -path './Cases/*'); do
  awk -v F="$f" '
    /^[ \t]*Section[ \t]/ {d++}
    /^[ \t]*End[ \t]/ {if (d>0) d--}
    /^[ \t]*(Variable|Variables|Hypothesis|Hypotheses|Context)[ \t]/ { if (d==0) { print "GATE: " F ":" NR ": " $0; bad=1 } }
    END { exit bad }' "$f" || exit 1
done
exit 0
