"""C26 — the peer list only contains valid peers and respects its bound (daemon/pex)."""
import vf


def describe(group, case):
    if group == "val":
        return "validateAddress(%s, allowLocalhost=%s) = %s (cleaned %s) disagrees with the declarative address form" % (
            case.get("addr"), case.get("allow_localhost"), case.get("result"), case.get("clean"))
    if group == "conc":
        return "%s: the list ended with %s peers (largest length seen while running: %s)" % (case.get("what"), case.get("final_len"), case.get("max_len_sampled"))
    if group == "start":
        return "%s loads [%s]: an address invalid under the configured policy, or more than Max" % (case.get("start"), case.get("loaded"))
    return "peer list sequence Max=%s allowLocalhost=%s [%s] breaks validity / bound / trusted-kept" % (
        case.get("max"), case.get("allow_localhost"), case.get("ops"))


SPEC = {
    "cmd": "c26",
    "budget": (1500, 40000),
    "header": "From Coq Require Import Init.Byte Strings.Byte.\nFrom Sky Require Import Base.Uint Model.Pex.\nOpen Scope Z_scope.",
    "corr": "C26_corr.v",
    "prop": "C26_prop.v",
    "precompile_data": True,
    "describe": describe,
    "groups": {
        "val": ("mism_val", "pf_val"),
        "start": ("mism_start", "pf_start"),
        "ops": ("mism_ops", "pf_ops"),
        "conc": (None, "pf_conc"),
    },
    "trusted_base": [
        "hand-written model Model/Pex.v of validateAddress (regexp \\s strip, strings.Split on ':', net.ParseIP restricted to IPv4 as of Go 1.23 (leading zeros rejected), IsLoopback/IsGlobalUnicast, strconv.ParseUint(,10,16)) and of the peer list operations; compared with the implementation on every run",
        "verif hook src/daemon/pex/verif_c26.go (validateAddress, disk-less Pex, setTrusted, clearOld, LastSeen setter for time passing, sorted dump)",
        "harness: strings as byte lists; time.Now read before/after each operation (sequence discarded when a second boundary is crossed); rand.Shuffle's permutation replayed via rand.Seed on the global source; evicted peer observed by diffing the list",
        "valid_form_b (decidable form used on the implementation's outputs) is compared with the model on every generated string, not proved equivalent to valid_form",
    ],
    "assumptions": [
        "the HTTP download of the remote peer list is not exercised (its consumer parseRemotePeerList + AddPeers is); cache files hold valid UTF-8 and no two member names that clean to the same address (map-order dependent)",
    ],
}


def run(ctx):
    vf.standard_run(ctx, SPEC)
