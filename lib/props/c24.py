"""C24 — connection bookkeeping (daemon.Connections) matches the set of live connections.
Hand-written model Model/Conns.v, theorems in Properties/C24.v, tie = correspondence
(bounded-exhaustive over distinct states + random sequences), property = decidable
invariant on dumps of the implementation's five maps."""
import vf


def case_of(sj, group, i):
    if group == "bfs":
        uni = sj.get("universe", [])
        states = sj.get("bfs_states", [])
        n = len(uni) or 1
        si, oi = divmod(i, n)
        if si < len(states):
            st = states[si]
            res = st.get("results", "").split("|")
            return {"path": st.get("path", ""), "op": uni[oi], "result": res[oi] if oi < len(res) else "?",
                    "state_index": si, "op_index": oi}
        return {"index": i}
    cs = sj.get("cases", {}).get(group, [])
    return cs[i] if i < len(cs) else {"index": i}


def describe(group, case):
    if group == "bfs":
        return ("on a fresh Connections, after [%s] the operation %s (result %s) leaves maps that break the bookkeeping invariant (or the connection became introduced other than from connected with its gnet id)"
                % (case.get("path"), case.get("op"), case.get("result")))
    return "random event sequence [%s] breaks the bookkeeping invariant" % case.get("ops", case)


SPEC = {
    "cmd": "c24",
    "budget": (40, 600),
    "header": "From Sky Require Import Base.Uint Model.Conns.\nOpen Scope Z_scope.",
    "corr": "C24_corr.v",
    "prop": "C24_prop.v",
    "precompile_data": True,
    "case_of": case_of,
    "describe": describe,
    "groups": {
        "bfs": ("mism_bfs", "pf_bfs"),
        "rand": ("mism_rand", "pf_rand"),
    },
    "side_keys": ["bfs_states_expanded", "bfs_depth", "bfs_truncated"],
    "trusted_base": [
        "hand-written model Model/Conns.v of connections.go (pending/connected/introduced/remove/SetHeight, five maps as association lists), tied to the code by comparing error class and all five maps after every operation (bounded-exhaustive over distinct states + random sequences) on every run",
        "verif hook src/daemon/verif_c24.go (thin wrappers + sorted dump of conns/mirrors/ipCounts/gnetIDs/listenAddrs)",
        "harness printer (hash-consed Coq terms), error identity = sentinel value, address strings ip4:port <-> (ip, port)",
        "addresses are well-formed ip:port strings (iputil.SplitAddr succeeds); malformed addresses return before any map is touched (read, not modelled)",
    ],
    "assumptions": [
        "gnet hands `connected` an id that no currently held connection has (ids come from a counter) — premise fresh_run of the theorems; evaluated on every explored history",
    ],
}


def run(ctx):
    vf.standard_run(ctx, SPEC)
