"""C27 — HTTP API access control is enforced on every endpoint.

Translator tie: Gen/Routes.v (+ Routes.json for the harness) is regenerated
from newServerMux in src/api/http.go. Correspondence: the real mux behind
httptest against Model/ApiAccess.v `decide`; the property's decidable form
(`prop_holds`, proved equivalent to the theorem's right-hand side) is evaluated
on the statuses the implementation answered."""
import glob
import json
import os

import vf


def _load_known(pid):
    """known findings of the merged file plus this property's own fragment
    (the fragment is merged into known_findings.json by lib/mkmanifest.py)."""
    out, seen = [], set()
    paths = [os.path.join(vf.ROOT, "known_findings.json")] + sorted(glob.glob(os.path.join(vf.ROOT, "known_findings.d", pid + ".json")))
    for p in paths:
        try:
            d = json.load(open(p))
        except Exception:
            continue
        for f in d.get("findings", []):
            key = json.dumps(f, sort_keys=True)
            if f.get("property") == pid and f.get("status") == "known" and key not in seen:
                seen.add(key)
                out.append(f)
    return out


def _describe(group, case):
    keys = ["path", "method", "cfg_name", "enabled_sets", "disable_csrf", "disable_header_check", "cfg_host", "whitelist",
            "username", "password", "token", "host_header", "origin_header", "referer_header", "authorization", "csrf_token_header", "ctype", "acrm", "history", "step", "token_expires_in_ms", "status", "response"]
    return "%s: %s" % (group, json.dumps({k: case.get(k) for k in keys if k in case}))


SPEC = {
    "uses_gen": ["Routes"],
    "cmd": "c27",
    "budget": (6900, 100000),
    "header": "From Coq Require Import String List ZArith Bool.\nFrom Sky Require Import Base.Uint Model.ApiAccess Gen.Routes Model.ApiRoutes.\nImport ListNotations.\nOpen Scope Z_scope.",
    "gen_header": "",
    "corr": "C27_corr.v",
    "prop": "C27_prop.v",
    "groups": {
        "access": ("mism_access", "pf_access"),
        "csrf_old_token": ("mism_csrf_old_token", "pf_csrf_old_token"),
        "token_history": ("mism_token_history", "pf_token_history"),
        "patterns": ("mism_patterns", None),
    },
    "describe": _describe,
    "extra_args": ["-extra", os.path.join(vf.COQ, "Gen", "Routes.json")],
    "search_seeds": 1,
    "side_keys": ["routes", "configs", "methods", "per_combination", "old_token_cases", "note"],
    "trusted_base": [
        "translator /verif/translator/tables_api.go: symbolic evaluation of the registration closures of newServerMux (src/api/http.go) to the route table Gen/Routes.v; cross-checked on every run against the patterns actually registered in the running http.ServeMux (mism_patterns)",
        "the order and content of the wrappers in webHandlerWithOptionals / forMethodAPISets / middleware.go / csrf.go are hand-modelled (Model/ApiAccess.v decide) and compared with the real mux on every run (all routes x methods x sampled configurations x header variants)",
        "oracle data taken from the libraries the code itself calls: net/http Request.BasicAuth, net/url Parse(..).Host, iputil.IsLocalhost/SplitAddr of the configured host; HMAC-SHA256 of a CSRF token is one bit (mac_ok) computed with the process key; base64/JSON decoding of the token are bits",
        "observable: HTTP status with a gateway stub that panics (0 = endpoint logic reached); with the stub a handler never answers 401/403 itself, answers 415 only on v1 (wallet/transaction) and 405 only on endpoints registered without a method table",
        "net/http ServeMux routing (exact pattern, else '/'), gzip and ElapsedHandler wrappers are assumed transparent; path cleaning redirects, CONNECT, HTTP/2 and TLS are not modelled; GUI static-file registrations are only shape-checked (C27_gui_routes_shape)",
        "time: token expiry is compared with time.Now() inside the implementation; cases use expiries at least 2 s away from the request time, the request histories (group token_history) at least 150 ms",
    ],
    "assumptions": [
        "configurations for which newServerMux does not panic (a localhost host must carry a port)",
        "request paths are clean (no //, .. segments), so ServeMux does not redirect",
    ],
}


def run(ctx):
    vf.load_known = _load_known
    # the model files the cases files import must be compiled against the
    # regenerated table even when a proof further up no longer goes through
    ok, msg = vf.regen(SPEC["uses_gen"])
    if ok:
        vf.coq_make(["Model/ApiAccess.vo", "Model/ApiRoutes.vo"])
        try:
            errs = json.load(open(os.path.join(vf.COQ, "Gen", "Routes.json"))).get("errors") or []
        except Exception as e:  # noqa: BLE001
            errs = ["Gen/Routes.json unreadable: %s" % e]
        if errs:
            # newServerMux no longer has the shape the translator can evaluate: there is
            # no table to enumerate requests over; name what could not be translated
            vf.prove(ctx)
            vf.violation(ctx, {"no_longer_checks": [{"kind": "translation", "detail": e} for e in errs],
                               "note": "the route registrations of src/api/http.go newServerMux could not be evaluated; C27_routes_translated fails and no request was generated"},
                         False, "translation break (route table of newServerMux): " + errs[0][:300], "-broken")
            return
    vf.standard_run(ctx, SPEC)
    ctx.coverage["explanation"] = (
        "Theorems hold for all configurations, requests and routes of a well-formed table; the regenerated table of this tree is proved well formed. "
        "Refuted clause (F8b): 'requesting a new token invalidates earlier ones' — C27_old_token_invalidated_refuted; the scenario is replayed on the real mux on every run (group csrf_old_token) and reported as KNOWN-FINDING.")
