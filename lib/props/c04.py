"""C04 — a block is appended only if it extends the signed chain; rejects are no-ops (ledger harness of C01)."""
import vf
from props import c01

SPEC = c01.spec("C04", "pf_c04")


def run(ctx):
    vf.standard_run(ctx, SPEC)
