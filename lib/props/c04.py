"""C04 — a block is appended only if it extends the signed chain; rejects are no-ops (ledger harness of C01)."""
import vf
from props import c01

SPEC = c01.spec("C04", "pf_c04")
# translator tie of the header checks (C04_header_checks_is_translated, Proofs/HeaderRefine.v)
SPEC["uses_gen"] = list(SPEC["uses_gen"]) + ["HeaderChecks"]
SPEC["trusted_base"] = list(SPEC["trusted_base"]) + [
    "header checks: Model/Ledger.v verify_header is PROVED equal to Gen/HeaderChecks.v, regenerated on this run by /verif/translator (stage3.go) from Blockchain.verifyBlockHeader; conventions of that translation: the result of bc.Head(tx) is an input (its BkSeq / Time fields, its error — None in the model: a failing db read is not modelled), the two hash comparisons (PrevHash vs head.HashHeader(), Body.Hash() vs BodyHash) are boolean inputs because hashes are data; still hand-written and compared with the node per op: the signature check, isGenesisBlock, verifyUxHash, the block-tree duplicate check and their order around verifyBlockHeader",
]


def run(ctx):
    vf.standard_run(ctx, SPEC)


def replay(ctx, path):
    """Re-run the stored case: the harness is deterministic in (seed, tier), so the
    generation is repeated with the seed / tier recorded in the replay file and
    evaluated again (the failing op reappears at the same index)."""
    import json
    d = json.load(open(path))
    ctx.seed = int(d.get("seed", ctx.seed))
    ctx.tier = d.get("tier", ctx.tier)
    run(ctx)
    return vf.finish(ctx)
