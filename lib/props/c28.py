"""C28 — no API request can crash the node or the request handler (PARTIAL).

Proved: totality / verdict of the modelled decision logic (Model/ApiTotal.v:
Visor.VerifyTxnVerbose + verifyTxnHandler status mapping, GetLastBlocks /
GetBlocksInRange arithmetic).  Everything else is differential exploration:
a real node behind the real mux, every route of the regenerated route table
with generated / mutated parameters and bodies under a watchdog."""
import glob
import json
import os

import vf


def _load_known(pid):
    out, seen = [], set()
    paths = [os.path.join(vf.ROOT, "known_findings.json")] + sorted(glob.glob(os.path.join(vf.ROOT, "known_findings.d", pid + ".json")))
    for p in paths:
        try:
            d = json.load(open(p))
        except Exception:
            continue
        for f in d.get("findings", []):
            key = json.dumps(f, sort_keys=True)
            if f.get("property") == pid and f.get("status") == "known" and key not in seen:
                seen.add(key)
                out.append(f)
    return out


def _describe(group, case):
    keys = ["phase", "observed", "process_completed", "requests", "answered", "not_answered", "handler_panics", "first_bad", "child_stderr", "path", "method", "query", "content_type", "body", "observed", "status", "detail", "alive_after", "facts", "head", "num", "start", "end", "blocks_returned", "note"]
    return "%s: %s" % (group, json.dumps({k: case.get(k) for k in keys if k in case})[:3000])


SPEC = {
    "uses_gen": ["Routes"],
    "cmd": "c28",
    "budget": (2000, 40000),
    "header": "From Sky Require Import Base.Uint Model.ApiTotal.\nOpen Scope Z_scope.",
    "gen_header": "",
    "corr": "C28_corr.v",
    "prop": "C28_prop.v",
    "groups": {
        "requests": (None, "pf_requests"),
        "vtv": ("mism_vtv", "pf_vtv"),
        "last_blocks": ("mism_last_blocks", None),
        "blocks_range": ("mism_blocks_range", None),
        "unbounded_count": (None, "pf_unbounded_count"),
        "alive": (None, "pf_alive"),
        "concurrency": (None, "pf_concurrency"),
    },
    "describe": _describe,
    "extra_args": ["-extra", os.path.join(vf.COQ, "Gen", "Routes.json")],
    "search_seeds": 2,
    "side_keys": ["routes", "blocks", "alive_at_end", "note"],
    "trusted_base": [
        "Model/ApiTotal.v is hand-written: the decision structure of Visor.VerifyTxnVerbose / verifyTxnHandler and the GetLastBlocks / GetBlocksInRange arithmetic; compared with the running node on every run (status of POST /api/v2/transaction/verify predicted from lookup facts; number of blocks returned by /last_blocks and /blocks)",
        "lookup facts (input unspent / known to historydb, transaction confirmed, previous block time) are read through the node's public read API; the user / soft / hard constraint verdicts are computed with package transaction directly (they are the subject of C09/C11) and are bits in the model",
        "harness: request generators, the recover middleware that turns a handler panic into an observation (the real server would drop the connection), the per-request watchdog (15 s), the liveness probe (GET /version, /blockchain/metadata, /wallets)",
        "the route table the requests are enumerated over is regenerated from newServerMux (translator, see C27)",
        "not modelled: net/http, encoding/json, the handlers other than the two above, wallet service, daemon (networking disabled in the harness node), boltdb",
    ],
    "assumptions": [
        "amount strings with exponents beyond 1e20000 are not generated: droplet.FromString on them is F13, handled under C30",
        "valid count parameters (scan / num of wallet endpoints) are kept <= 50 in the main stream and the wallet-growing endpoints get a fixed share of the budget; the unbounded case is the known finding replayed at the end of each run",
    ],
}


def run(ctx):
    vf.load_known = _load_known
    ok, msg = vf.regen(SPEC["uses_gen"])
    if ok:
        vf.coq_make(["Model/ApiTotal.vo"])
    vf.standard_run(ctx, SPEC)
    ctx.coverage["explanation"] = (
        "PARTIAL by nature: a Coq model cannot express 'no Go runtime panic anywhere in net/http + handlers + visor + wallet'. "
        "Only the modelled decision logic is proved total (C28_vtv_total_partial, C28_verify_returns_verdict_partial, C28_last_blocks_*): "
        "Visor.VerifyTxnVerbose with the history lookup as an option (the nil dereference F6, repaired) and the block-range arithmetic. "
        "Everything else is differential exploration, not proof: a real node (visor with a chain of 7 blocks and an unconfirmed pool, wallet service with a plain and an encrypted wallet, "
        "offline daemon, kv storage) behind the real mux; every route with generated and mutated parameters and bodies (wrong types, huge / negative numbers, empty, malformed JSON, "
        "very long strings, invalid hex / addresses, damaged transaction encodings, boundary block numbers) under a per-request watchdog; "
        "observable = answered with a status / handler panic / no answer / dropped connection, and the node still answers afterwards.")
