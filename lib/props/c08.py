"""C08 — the chain database recovers from a crash at any point (partial inside commits)."""
import vf

SPEC = {
    "cmd": "c08",
    "budget": (4, 14),
    "header": "From Coq Require Import ZArith List Bool.\nFrom Sky Require Import Base.Uint Model.Crash.\nImport ListNotations.\nOpen Scope Z_scope.",
    "corr": "C08_corr.v",
    "prop": "C08_prop.v",
    "groups": {"crash": ("mism_crash", "pf_crash"), "abs": ("mism_abs", None), "lock": (None, "pf_lock")},
    "side_keys": ["blocks", "commit_boundaries"],
    "trusted_base": [
        "MODELLED, NOT VERIFIED: boltdb's page layer (copy-on-write: hypothesis `cow`; alternating checksummed meta pages: `pre_ok`; dirty pages written in ascending id before the meta page), the OS file system (ordered writes; torn writes only in the last page written)",
        "WalkChain's goroutine skeleton is a hand-written small-step model; its tie to the code is the observed outcome of CheckDatabase on every crash image (returns nil within the watchdog)",
        "verif hook dbutil.VerifAfterCommit (commit boundaries); harness nodekit (real visor on bolt files)",
    ],
    "assumptions": [
        "torn writes inside a 4 KiB data page, fsync lies and file-system reordering cannot be exhibited",
        "the life-cycle model abstracts a database state to (buckets exist, chain length, pool); equality of full states is checked on the implementation by digests (head, unspent set, pool)",
    ],
}


def run(ctx):
    vf.standard_run(ctx, SPEC)
