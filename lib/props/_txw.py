"""Helpers of the C09 / C12 / C13 drivers (same mechanism as props/_hrs.py, kept
separate so that the drivers of different builders do not depend on each other).

* run_precompiled: vf.standard_run with the harness-written data compiled once
  as a Coq module that both evaluation files import (parsing the case data is
  the dominant cost).
* replay: re-runs one stored case through the implementation (harness
  `-extra replay=<file>`: the harness regenerates the run of the stored
  seed / tier / budget and keeps only the stored case) and through the model,
  printing both evaluations.
"""
import hashlib
import json
import os
import re

import vf


def run_precompiled(ctx, spec):
    orig = vf.assemble_cases
    cache = {}       # data file path -> module name or None
    made = []

    def assemble(path, header, data_file, template):
        mod = cache.get(data_file)
        if data_file not in cache:
            text = open(data_file).read()
            mod = "d%s_%s_%d" % (ctx.pid, hashlib.sha256(text.encode()).hexdigest()[:10], os.getpid())
            mpath = os.path.join(vf.CASES, mod + ".v")
            os.makedirs(vf.CASES, exist_ok=True)
            with open(mpath, "w") as f:
                f.write(spec["header"] + "\n" + text + "\n")
            made.append(mpath)
            rc, out = vf.sh(["coqc"] + vf.COQFLAGS + [mpath], cwd=vf.COQ, timeout=3000)
            if rc != 0:
                vf.log("data module did not compile, falling back:\n" + out[-800:])
                mod = None
            cache[data_file] = mod
        if mod is None:
            return orig(path, header, data_file, template)
        with open(path, "w") as f:
            f.write(header + "\nFrom Sky Require Import Cases.%s.\n" % mod)
            f.write(open(os.path.join(vf.COQ, "Corr", template)).read() if not template.startswith("\n") else template)

    vf.assemble_cases = assemble
    try:
        vf.standard_run(ctx, spec)
    finally:
        vf.assemble_cases = orig
        for mpath in made:
            base = mpath[:-2]
            for ext in (".v", ".vo", ".vok", ".vos", ".glob"):
                try:
                    os.remove(base + ext)
                except OSError:
                    pass
            try:
                os.remove(os.path.join(os.path.dirname(mpath), "." + os.path.basename(base) + ".aux"))
            except OSError:
                pass


def replay(ctx, spec, path):
    """Run the stored case through implementation and model; print what each says."""
    r = json.load(open(path))
    print(json.dumps({k: r.get(k) for k in ("property", "group", "case", "summary", "seed", "tier")}, indent=1))
    if not r.get("case") or "group" not in r:
        print("this replay file names a broken theorem / correspondence, not a concrete input:")
        print(json.dumps(r.get("no_longer_checks", r), indent=1)[:4000])
        return 0
    ok, out = vf.build_harness(spec["cmd"])
    if not ok:
        print("harness does not build:\n" + out[-2000:])
        return 1
    data = os.path.join(vf.BUILD, "replay_%s_%d.v" % (ctx.pid, os.getpid()))
    side = data[:-2] + ".json"
    tier = r.get("tier", "quick")
    rc, hout = vf.harness(spec["cmd"], ["-seed", r.get("seed", 1), "-tier", "thorough" if tier == "search" else tier,
                                        "-n", r["case"].get("n", 0), "-out", data, "-json", side,
                                        "-extra", "replay=" + os.path.abspath(path)])
    if rc != 0:
        print("harness failed:\n" + hout[-2000:])
        return 1
    sj = json.load(open(side))
    print("implementation (this tree):")
    for g, cs in sj.get("cases", {}).items():
        if g == r["group"] and cs:
            print(json.dumps(cs[0], indent=1))
    for what, tmpl, hdr in (("property on the implementation's output", spec["prop"], spec["header"]),
                            ("model vs implementation", spec["corr"], spec["header"] + "\n" + spec.get("gen_header", ""))):
        p = vf.cases_path(ctx.pid, ctx.seed, "replay" + tmpl[:-2].replace("_", ""))
        vf.assemble_cases(p, hdr, data, tmpl)
        okc, outc, vals = vf.coq_eval(p)
        try:
            os.remove(p)
        except OSError:
            pass
        print(what + ": " + (", ".join("%s=%s" % (k, v) for k, v in sorted(vals.items()) if re.match(r"(pf|mism)_", k))
                             if okc else "evaluation failed:\n" + outc[-1500:]))
    for f in (data, side):
        try:
            os.remove(f)
        except OSError:
            pass
    return 0
