"""C03 — accepted transactions never create coin hours (Model/Hours.v over the regenerated
CoinHours / AddUint64; correspondence with coin.VerifyTransactionHoursSpending,
VerifySingleTxnHardConstraints, VerifyBlockTxnConstraints; F14 witness replayed every run)."""
from props import _hrs

SPEC = {
    "uses_gen": ["CoinHours", "CoinLoops"],   # closes over Mathutil
    "cmd": "c03",
    "budget": (300, 12000),
    "header": "From Sky Require Import Base.Uint Model.ArithSpec Model.HoursSpec.\nOpen Scope Z_scope.",
    "gen_header": "From Sky Require Import Gen.Mathutil Gen.CoinHours Model.Hours.",
    "corr": "C03_corr.v",
    "prop": "C03_prop.v",
    "groups": {
        "hs": ("mism_hs", "pf_hs"),
        "cs": ("mism_cs", "pf_cs"),
        "oh": ("mism_oh", "pf_oh"),
        "single": ("mism_single", "pf_single"),
        "block": ("mism_block", "pf_block"),
        "witness": ("mism_witness", "pf_witness"),
        "mono": ("mism_mono", "pf_mono"),
        "chain": ("mism_chain", "pf_chain"),       # node level: stored blocks of a real visor (arbitrating + follower)
        "supply": (None, "pf_supply"),             # node level: hours held by the unspent set never grow
    },
    "search_seeds": 2,
    "trusted_base": [
        "translator /verif/translator (Go->Gallina) for UxOut.CoinHours, AddUint64, MultUint64 and (loops over slices, Gen/CoinLoops.v) VerifyTransactionHoursSpending, VerifyTransactionCoinsSpending, Transaction.OutputHours, UxArray.CoinHours — regenerated on this run, validated by C31 (groups l_*) and by the mono group here",
        "the loops of Model/Hours.v (VerifyTransactionHoursSpending, OutputHours, UxArray.CoinHours, VerifyTransactionCoinsSpending) are PROVED equal to the regenerated Gen/CoinLoops.v for all inputs (C03_*_is_translated, Proofs/HoursRefine.v) and also compared with the running code on this run's cases; still hand-written and only compared: the order of checks in VerifySingleTxnHardConstraints / VerifyBlockTxnConstraints (src/transaction/verify.go)",
        "structural / signature checks (txn.Verify, VerifyInputSignatures, duplicate outputs) enter the model as the datum `pre` computed by the implementation (subject of C09); theorems hold for every `pre`",
        "node level (groups chain, supply): short histories of publisher-signed blocks on a real visor.Visor (arbitrating publisher and follower, bolt file) through Visor.ExecuteSignedBlock; the stored head block is re-read and every stored transaction / the unspent set's hours are checked; longer histories, reorganisation-free by construction. Pool admission (InjectForeignTransaction) is covered at function level only",
        "harness generator, Coq-term printer, error naming by sentinel identity or constant message prefix",
    ],
    "assumptions": [
        "all times, coins, hours are 64-bit values (wf_in / wf_out / in_u 64 T) — guaranteed by the Go types",
    ],
}


def run(ctx):
    _hrs.run_precompiled(ctx, SPEC)


def replay(ctx, path):
    return _hrs.replay(ctx, SPEC, path)
