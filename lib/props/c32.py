"""C32 — the connection pool is race-free and shuts down under any schedule (PARTIAL).

Proof: Model/StrandPool.v (strand protocol as a transition system), invariants over all
reachable states. Tie: harness/c32 runs a REAL gnet.ConnectionPool over loopback TCP under
concurrent API calls + Shutdown, built with `go build -race` when the race runtime is
available; every observed log is replayed on the model inside Coq; data-race reports of the
Go race detector are parsed here and each distinct signature is a case of group `race`."""
import json
import os
import re
import shutil

import vf

LEVEL = "proof"

HEADER = ("From Sky Require Import Base.Uint Model.StrandPool.\nFrom Coq Require Import List.\n"
          "Import ListNotations.\nOpen Scope Z_scope.")
BUDGET = (25, 300)
TRUSTED = [
    "hand-written model Model/StrandPool.v of strand.Strand / processStrand / Shutdown / Run; tie = replay of the logs of real pool runs on the model (every observed call result must be producible by a model schedule that respects the logged real-time order)",
    "Go race detector (go build -race, ThreadSanitizer runtime) for memory-model races: sampled schedules only",
    "harness event log: one global atomic counter taken before a call starts and after it returns",
]
ASSUME = [
    "a request body terminates and does not itself call into the strand (the daemon's callbacks only post events)",
    "the model's atomic steps are the channel operations; data races on memory outside the modelled pool state, socket behaviour (Close unblocking Read) and timers are not in the model - they are sampled by the harness under the race detector",
]

SKY = "github.com/skycoin/skycoin/src/"


def _frames(block):
    """[(function, file:line)] of one access stack of a race report."""
    return re.findall(r"^\s{2}(\S.*?)\(\)\n\s+(\S+?:\d+)", block, re.M)


def _short(fn):
    return fn.replace(SKY + "daemon/", "").replace(SKY, "")


def parse_races(text):
    """Distinct race signatures of a GORACE log -> list of flat dicts."""
    out = {}
    for rep in text.split("=================="):
        if "WARNING: DATA RACE" not in rep:
            continue
        parts = re.split(r"\n(?=Previous (?:read|write) at )", rep, maxsplit=1)
        if len(parts) != 2:
            continue
        second = parts[1].split("\nGoroutine ")[0]
        sides = []
        for blk in (parts[0], second):
            fr = _frames(blk)
            own = [(f, loc) for f, loc in fr if f.startswith(SKY) or f.startswith("main.")]
            top = own[0] if own else (fr[0] if fr else ("?", "?"))
            in_strand = any("strand.Strand.func1" in f for f, _ in fr)
            m = re.search(r"\(\*ConnectionPool\)\.(\w+)", top[0])
            sides.append({"fn": _short(top[0]), "file": os.path.basename(top[1].split(":")[0]),
                          "in_strand": in_strand, "method": m.group(1) if m else "",
                          "closure": ".func" in top[0]})
        sides.sort(key=lambda x: x["fn"])
        a, b = sides
        kind = "other"
        strand_side = [x for x in sides if x["in_strand"]]
        free_side = [x for x in sides if not x["in_strand"]]
        if len(strand_side) == 1 and len(free_side) == 1:
            s_, f_ = strand_side[0], free_side[0]
            # a request closure of method M still running in the strand while M's own
            # caller has already returned on quit and reads the captured result variable
            if s_["closure"] and ((f_["method"] == s_["method"] and f_["file"] == "pool.go") or f_["fn"].startswith("main.")):
                kind = "strand-closure-vs-own-returned-caller"
        case = {"a": a["fn"], "b": b["fn"], "kind": kind,
                "method": (strand_side[0]["method"] if strand_side else "")}
        key = (case["a"], case["b"], kind)
        if key not in out:
            case["report"] = rep.strip()[:2500]
            case["count"] = 0
            out[key] = case
        out[key]["count"] += 1
    return list(out.values())


def load_known(pid):
    """known findings of this property: the merged known_findings.json (written by
    lib/mkmanifest.py) and, in case it has not been regenerated yet, the fragment itself"""
    out = vf.load_known(pid)
    try:
        frag = json.load(open(os.path.join(vf.ROOT, "known_findings.d", pid + ".json")))
        for f in frag.get("findings", []):
            if f.get("property") == pid and f.get("status") == "known" and f not in out:
                out.append(f)
    except Exception:
        pass
    return out


def build(ctx):
    """go build (-race if the race runtime is usable offline). Returns (ok, race_enabled, log)."""
    hd = os.path.join(vf.ROOT, "harness")
    out_bin = os.path.join(vf.BUILD, "harness_c32")
    with vf.Lock("harness.lock"):
        shutil.copyfile(os.path.join(vf.REPO, "go.sum"), os.path.join(hd, "go.sum"))
        gm = open(os.path.join(hd, "go.mod")).read()
        want = re.sub(r"replace github.com/skycoin/skycoin => \S+", "replace github.com/skycoin/skycoin => " + vf.REPO, gm)
        if want != gm:
            open(os.path.join(hd, "go.mod"), "w").write(want)
        env = dict(vf.GOENV, CGO_ENABLED="1")
        rc, out = vf.sh(["go", "build", "-race", "-tags", "verif", "-o", out_bin, "./c32"], cwd=hd, env=env, timeout=1200)
        if rc == 0:
            return True, True, out
        race_log = out
        rc, out = vf.sh(["go", "build", "-tags", "verif", "-o", out_bin, "./c32"], cwd=hd, env=vf.GOENV, timeout=1200)
        return rc == 0, False, race_log + "\n" + out


def one_round(ctx, seed, tier, n, tag, known, race_enabled):
    pid = ctx.pid
    data = os.path.join(vf.BUILD, "data_%s_%s%s_%d.v" % (pid, seed, tag, os.getpid()))
    side = data[:-2] + ".json"
    racelog = os.path.join(vf.BUILD, "race_%s_%s%s_%d" % (pid, seed, tag, os.getpid()))
    env = {"GORACE": "log_path=%s halt_on_error=0 history_size=3" % racelog}
    rc, hout = vf.harness("c32", ["-seed", seed, "-tier", tier, "-n", n, "-out", data, "-json", side], env_extra=env, timeout=2400)
    race_text = ""
    for f in os.listdir(vf.BUILD):
        if f.startswith(os.path.basename(racelog)):
            race_text += open(os.path.join(vf.BUILD, f), errors="replace").read()
            os.remove(os.path.join(vf.BUILD, f))
    if rc not in (0, 66) or not os.path.exists(side):
        # the process died: a panic in one of the pool's own goroutines cannot be
        # recovered by the harness. The panic and the race reports written before
        # it are the concrete evidence.
        m = re.search(r"^(panic: .*|fatal error: .*)$", hout, re.M)
        n_unknown = 0
        for rc_ in parse_races(race_text):
            if vf.match_known(known, dict({k: v for k, v in rc_.items() if k != "report"}, group="race")):
                continue
            n_unknown += 1
            vf.violation(ctx, {"group": "race", "case": rc_, "seed": seed, "tier": tier}, True,
                         "data race in the pool reported by the Go race detector: %s <-> %s" % (rc_["a"], rc_["b"]),
                         tag + "-race%d" % n_unknown)
        if m:
            i = hout.find(m.group(1))
            vf.violation(ctx, {"group": "crash", "case": {"panic": m.group(1), "stack": hout[i:i + 3000]}, "seed": seed, "tier": tier,
                               "note": "a goroutine of the pool panicked and killed the process while the harness ran concurrent pool calls and Shutdown"},
                         True, "the pool crashed the process: " + m.group(1), tag + "-crash")
        else:
            vf.violation(ctx, {"broken": "harness run failed", "log": hout[-3000:], "race_log": race_text[-3000:]}, n_unknown > 0,
                         "harness run failed (rc=%d)" % rc, tag)
        return None
    sj = json.load(open(side))
    cases = sj.get("cases", {})
    found = False
    nfail = 0
    # 1. the property on the observed runs
    pok, pres, pout = vf._eval_groups(ctx, HEADER, data, "C32_prop.v", ["pf_trace"], tag + "p")
    if not pok:
        vf.violation(ctx, {"broken": "property evaluation file does not compile", "log": pout[-3000:]}, False,
                     "decidable property could not be evaluated", tag)
    for i in pres.get("pf_trace", []):
        case = cases.get("trace", [])[i] if i < len(cases.get("trace", [])) else {"index": i}
        kf = vf.match_known(known, dict(case, group="trace"))
        if kf:
            vf.known_finding(ctx, kf["what"])
            continue
        nfail += 1
        found = True
        brief = {k: v for k, v in case.items() if k != "events"}
        vf.violation(ctx, {"group": "trace", "case": case, "seed": seed, "tier": tier,
                           "note": "schedule-dependent: re-running the same seed explores the same operation mix, not the same interleaving"},
                     True, "property fails on a run of the real pool: " + json.dumps(brief), tag + "-trace%d" % i)
    # 2. data races reported by the race detector
    races = parse_races(race_text)
    nrace_unknown = 0
    for rc_ in races:
        kf = vf.match_known(known, dict({k: v for k, v in rc_.items() if k != "report"}, group="race"))
        if kf:
            vf.known_finding(ctx, kf["what"])
            continue
        nrace_unknown += 1
        found = True
        vf.violation(ctx, {"group": "race", "case": rc_, "seed": seed, "tier": tier}, True,
                     "data race in the pool reported by the Go race detector: %s <-> %s" % (rc_["a"], rc_["b"]),
                     tag + "-race%d" % nrace_unknown)
    # 3. correspondence: the model accepts every observed log
    cok, cres, cout = vf._eval_groups(ctx, HEADER, data, "C32_corr.v", ["mism_trace"], tag + "c")
    broke = []
    nmis = 0
    if not cok:
        broke.append(("correspondence", "correspondence file does not compile:\n" + cout[-2000:]))
    for i in cres.get("mism_trace", []) if cok else []:
        case = cases.get("trace", [])[i] if i < len(cases.get("trace", [])) else {"index": i}
        if vf.match_known(known, dict(case, group="trace")):
            continue
        nmis += 1
        if nmis <= 5:
            brief = {k: v for k, v in case.items() if k != "events"}
            broke.append(("correspondence", "the model does not allow the observed log of scenario %d: %s" % (i, json.dumps(brief))))
    for f in (data, side):
        try:
            os.remove(f)
        except OSError:
            pass
    return sj, nfail, nmis, races, nrace_unknown, broke, found


def run(ctx):
    proof_ok, info = vf.prove(ctx)
    broke = []
    if not proof_ok:
        broke.append(("proof", "%s\n%s" % (info.get("lemma"), info.get("error"))))
    ctx.coverage["trusted_base"] = ctx.coverage.get("trusted_base", list(vf.KERNEL_TB)) + TRUSTED
    ctx.assumptions += ASSUME
    ok, race_enabled, blog = build(ctx)
    if not ok:
        vf.violation(ctx, {"broken": "harness build against /repo (tag verif) failed", "log": blog[-3000:]}, False,
                     "correspondence harness does not build against the current tree")
        return
    ctx.coverage["race_detector"] = "enabled (go build -race, CGO_ENABLED=1)" if race_enabled else \
        "NOT available offline - scheduling noise and GOMAXPROCS variation only: " + blog[-300:]
    if not race_enabled:
        ctx.notes.append("go build -race failed; memory-model races are not sampled in this run")
    known = load_known(ctx.pid)
    n = BUDGET[1] if ctx.thorough() else BUDGET[0]
    r = one_round(ctx, ctx.seed, ctx.tier, n, "", known, race_enabled)
    if r is None:
        return
    sj, nfail, nmis, races, nrace_unknown, cbroke, found = r
    broke += cbroke
    ctx.coverage.update({
        "evaluations": sj.get("evaluations", 0),
        "distinct_nontrivial": sj.get("distinct_nontrivial", 0),
        "rule": sj.get("rule", ""),
        "samples": [{k: (v if k != "events" else v[:40]) for k, v in s.items()} for s in sj.get("samples", [])[:3]],
        "distribution": sj.get("distribution", []),
        "traces_validated_against_impl": sj.get("evaluations", 0),
        "model_impl_mismatches": nmis,
        "property_failures_on_impl": nfail,
        "race_reports_distinct": len(races),
        "race_reports_not_known": nrace_unknown,
        "race_signatures": [{k: v for k, v in x.items() if k != "report"} for x in races],
        "handled_messages": sj.get("handled_messages"),
    })
    if broke and not found:
        # proof or correspondence no longer checks: look for a concrete failing run with a larger budget
        for s in range(2):
            rr = one_round(ctx, ctx.seed * 1000 + 17 + s, "search", BUDGET[1], "-s%d" % s, known, race_enabled)
            if rr is None or rr[6]:
                found = found or bool(rr and rr[6])
                break
    if broke and not found:
        what = "; ".join("%s: %s" % (k, d.split("\n")[0][:200]) for k, d in broke[:4])
        vf.violation(ctx, {"no_longer_checks": [{"kind": k, "detail": d} for k, d in broke],
                           "note": "no concrete failing run was found by the search; the property is no longer shown to hold"},
                     False, what, "-broken")


def replay(ctx, path):
    """Re-run with the seed / tier of the stored case: the operation mix, thread count and
    GOMAXPROCS of every scenario are reproduced exactly; the interleaving is chosen by the Go
    scheduler again, so a schedule-dependent failure reappears only with some probability
    (the stored case holds the full event log / race report that was observed)."""
    d = json.load(open(path))
    ctx.seed = int(d.get("seed", ctx.seed))
    ctx.tier = d.get("tier", ctx.tier)
    if ctx.tier == "search":
        ctx.tier = "thorough"
    run(ctx)
    return vf.finish(ctx, LEVEL)
