"""C05 — blocks made by the publisher are valid, sorted by fee/kB then hash, within
the block size, and pick conflicts deterministically (real publisher + follower
nodes vs the Coq model Model/BlockCreate.v)."""
import vf


def describe(group, case):
    c = dict(case)
    pool = c.pop("pool", [])
    return "pool of %d txns (%s), limits block=%s txn=%s: result=%s block=%s follower_accepted=%s" % (
        len(pool), c.get("shape"), c.get("max_block"), c.get("max_txn"), c.get("result"),
        [h[:12] for h in (c.get("block") or [])], c.get("follower_accepted"))


SPEC = {
    "uses_gen": True,          # Model/BlockCreate.v uses the regenerated mathutil (MultUint64, AddUint32, AddUint64)
    "cmd": "c05",
    "budget": (100, 2000),
    "header": "From Sky Require Import Base.Uint Model.BlockCreate.\nOpen Scope Z_scope.",
    "corr": "C05_corr.v",
    "prop": "C05_prop.v",
    "groups": {"c05": ("mism_c05", "pf_c05")},
    "describe": describe,
    "search_seeds": 2,
    "trusted_base": [
        "per-transaction facts handed to the model (fee at the head, size, input ids, verdict of VerifySingleTxnSoftHardConstraints under CreateBlockVerifyTxn, verdict of VerifyBlockTxnConstraints) are computed by the harness with the transaction/fee packages directly — transaction validation itself is C09/C11",
        "translator for mathutil.MultUint64/AddUint32/AddUint64 (Gen/Mathutil.v, validated by C31)",
        "harness id tables: output ids are small integers, transaction hashes are represented by their first 8 bytes (the harness aborts if two pool hashes share them)",
        "not modelled: block header construction, body hash, signature, UxHash (observed on the real follower node: follower_accepted), the duplicate-output test of processTransactions (needs a SHA-256 collision between distinct pool transactions)",
        "test hook src/visor/verif_c05.go (build tag verif): createBlock at an explicit time instead of time.Now()",
        "Go's sort.Sort is not modelled: the comparator is proved a strict total order on distinct hashes, so every correct sort returns the model's list (C05_sorted_unique)",
    ],
    "assumptions": [
        "wf_pool_b: sizes in 1..2^32-1, fees in uint64, distinct transaction hashes (evaluated on every generated pool: hyps_ok)",
        "a transaction that passes the creation filter has a computable fee and passes VerifyBlockTxnConstraints (evaluated on every generated pool: hyps_ok)",
    ],
}


def run(ctx):
    vf.standard_run(ctx, SPEC)


def replay(ctx, path):
    """Re-run the stored case: the harness is deterministic in (seed, tier), so
    the whole generation is repeated with the seed / tier recorded in the replay
    file and evaluated again (the failing case reappears at the same index)."""
    import json
    d = json.load(open(path))
    ctx.seed = int(d.get("seed", ctx.seed))
    ctx.tier = d.get("tier", ctx.tier)
    run(ctx)
    return vf.finish(ctx)
