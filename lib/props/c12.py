"""C12 — spend construction is sound, complete and well formed
(hand-written model Model/Create.v + correspondence with transaction.Create,
ChooseSpends*, DistributeCoinHoursProportional)."""
import vf
from props import _txw

SPEC = {
    "uses_gen": True,          # checked arithmetic and fee formulas are the translated code
    "cmd": "c12",
    "budget": (800, 8000),
    "search_seeds": 1,
    "header": "From Sky Require Import Base.Uint Model.ArithSpec Model.TxVerify Model.Create.\nOpen Scope Z_scope.",
    "gen_header": "",
    "corr": "C12_corr.v",
    "prop": "C12_prop.v",
    "groups": {
        "create": ("mism_create", "pf_create"),
        "choose": ("mism_choose", "pf_choose"),
        "dist": ("mism_dist", "pf_dist"),
    },
    "trusted_base": [
        "addresses and output hashes are ids assigned by the harness that preserve the byte order the code sorts by (null = 0); UxBalance.Hours is computed by the implementation (CoinHours, C31)",
        "premises of the theorems: 64-bit amounts, offered coins and hours sum below 2^64, 1 <= burn factor < 2^32, decimal share factor handed over as num/den with den > 0 (Coefficient/Exponent of shopspring/decimal; its arithmetic is modelled as exact rational arithmetic + truncation)",
        "translator for mathutil / fee (validated by C31's translation validation)",
        "harness generators, Coq-term printer, error identity = sentinel or message prefix",
        "math/big, sort.Slice (modelled as the unique sorted permutation under the code's total order) are not verified",
    ],
    "assumptions": ["addresses have version 0 (cipher.AddressFromBytes accepts the automatic change address)",
                    "NewUxBalances succeeded (no CoinHours overflow in the offered outputs)"],
}


def run(ctx):
    _txw.run_precompiled(ctx, SPEC)


def replay(ctx, path):
    return _txw.replay(ctx, SPEC, path)
