"""C30 — coin amount text conversion is exact (string-level model of
decimal.NewFromString as used + FromString/ToString; compared with the real
droplet package run in a watchdog subprocess)."""
import vf

SPEC = {
    "cmd": "c30",
    "budget": (400, 12000),
    "header": "From Sky Require Import Base.Uint Model.Base58 Model.DropletText.\nOpen Scope Z_scope.",
    "corr": "C30_corr.v",
    "prop": "C30_prop.v",
    "groups": {
        "from": ("mism_from", "pf_from"),
        "to": ("mism_to", "pf_to"),
    },
    "side_keys": ["watchdog_hangs"],
    "trusted_base": [
        "Model/DropletText.v (hand-written): string-level model of shopspring/decimal NewFromString as vendored (split at the first e/E, strconv.ParseInt 32-bit exponent, split at '.', trailing zeros of the fraction trimmed, math/big SetString base 10 = optional sign + digits) and of droplet.FromString/ToString; compared on this run with the real functions on grammar-directed, boundary and malformed strings",
        "shopspring/decimal's internal arithmetic (Shift, GreaterThan, IntPart, Round, string) is not modelled line by line: the model states their mathematical result and the differential check compares",
        "the implementation runs in a subprocess under a 5 s per-call watchdog and a 4 GB address-space limit; a hang or crash is an observable that fails the property",
        "harness printer of inputs/outputs as Coq terms; error identity = droplet sentinel, every decimal.NewFromString error = \"parse\"",
    ],
    "assumptions": ["ToString's argument is a uint64"],
}


def run(ctx):
    vf.standard_run(ctx, SPEC)
