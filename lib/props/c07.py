"""C07 — derived indexes and query views agree with the chain.
Coq: Model/Views.v (first-principles views + mirror of ProcessBlock / adjust /
buildAddrIndex / ParseBlock / initHistory and of the Visor queries), refinement
theorems for all histories; tie: random histories on a real visor.Visor (bolt
file), every view queried through the public API after every step, index /
history wiped and rebuilt on reopen."""
import vf

SPEC = {
    "uses_gen": True,     # balances use the regenerated UxOut.CoinHours / AddUint64
    "cmd": "c07",
    "budget": (8, 100),
    "header": "From Sky Require Import Base.Uint Model.ArithSpec Model.Views.\nFrom Coq Require Import List.\nImport ListNotations.\nOpen Scope Z_scope.",
    "corr": "C07_corr.v",
    "prop": "C07_prop.v",
    "groups": {
        "hist": ("mism_hist", "pf_hist"),
        "stale": ("mism_stale", "pf_stale"),
        "conc": ("mism_conc", "pf_conc"),
    },
    "side_keys": ["api_queries", "info_genesis_head_unconfirmed_addr_query_panics"],
    "trusted_base": [
        "hand-written model Model/Views.v of blockdb.Unspents (ProcessBlock, poolAddrIndex.adjust, buildAddrIndex, MaybeBuildIndexes), historydb.HistoryDB (ParseBlock, NeedsReset), visor.initHistory and the Visor query methods, compared on every run with a real visor.Visor after every step of random histories (public API only, no hook)",
        "translator for UxOut.CoinHours / AddUint64 used inside the balance model (validated by C31)",
        "Go map iteration order in ProcessBlock and bolt key order in buildAddrIndex only permute rows / bucket keys; the bolt key order of the unspent pool is handed to the model by the harness",
        "ids: every hash is a small integer assigned by the harness (SHA-256 collision freedom); snapshot hashes are the real 256-bit values",
        "concurrency group (run-time check only): query goroutines run while one goroutine executes injections and blocks; the verif-tagged hook dbutil.VerifBeforeView yields and pauses 150us before every read transaction during this group; each answer must equal the view of ONE state between the operations completed at its start and started at its end",
        "harness printer; canonical ordering of unordered results (sorted ids; transaction rows by (confirmed, block, id))",
    ],
    "assumptions": ["wf_chain: the accepted chain has numbered blocks, inputs that are distinct unspent outputs, fresh output / transaction ids (established by block acceptance, C02/C04; evaluated on every explored history: code 10 of pf_hist)",
                    "reopen: the order handed to the model enumerates the unspent pool; a damaged index marker differs from the head (a marker equal to the head is trusted by the code)"],
}


def run(ctx):
    vf.standard_run(ctx, SPEC)
