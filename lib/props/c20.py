"""C20 — wallet and key-value files survive a crash during a save.

Coq: Model/SaveFile.v (directory, system calls of a save, ordered-write crash
model, loaders), Proofs/SaveFileProofs.v, Properties/C20.v.
Tie: harness/c20 runs the real service operations under strace (skeleton compared
with the model's op list), replays the traced calls up to every crash point on a
real directory and starts the real wallet.NewService / kvstorage.NewManager on it."""
import vf

SPEC = {
    "uses_gen": False,
    "cmd": "c20",
    "budget": (10, 400),
    "header": "From Sky Require Import Base.Uint Model.SaveFile.\nFrom Coq Require Import List String.\nImport ListNotations.\nOpen Scope Z_scope. Open Scope string_scope. Open Scope list_scope.",
    "corr": "C20_corr.v",
    "prop": "C20_prop.v",
    "groups": {
        "setup": (None, "pf_setup"),
        "scen": ("mism_scen", None),
        "crash": ("mism_crash", "pf_crash"),
        "loader": ("mism_loader", None),
    },
    "describe": lambda g, c: (
        "%s: crash after %s completed system calls of '%s' (interrupted: %s, cut at byte %s) leaves files [%s] (target %s bytes); "
        "the real service then shows '%s' which is neither the state before the save ('%s') nor after it ('%s')"
        % (c.get("kind"), c.get("k"), c.get("what"), c.get("interrupted"), c.get("cut"), c.get("files"),
           c.get("target_len"), c.get("observed"), c.get("obs_old"), c.get("obs_new"))
        if g == "crash" else
        ("%s: the real service fails ('%s') when asked to '%s' on a directory that holds only valid files and the leftovers [%s]"
         % (c.get("kind"), c.get("error"), c.get("what"), c.get("leftover_files")))
        if g == "setup" else "%s case %s" % (g, c)),
    "trusted_base": [
        "ordered-write crash model of the file system (system calls take effect in program order; an interrupted write leaves a prefix); rename replaces the target atomically; fsync is recorded in the op list but durability/reordering below the system-call level is not modelled",
        "strace output and the harness's parser of it (openat/write/fsync/rename/unlink/ftruncate on the directory between two markers) as the witness of what the real operation does",
        "parse oracle: whether a file content loads (and to which wallet / map digest) is taken from the real loader run on that content alone; the model decides everything else (which files are looked at, abort / skip / reset)",
        "harness replay of traced system calls on a memory file system; sha256 digests of Wallet.Serialize() / of the storage map as identity of loaded content",
    ],
    "assumptions": [
        "tmp-name suffix is 8 hex digits (hex8b h; evaluated on every traced scenario)",
        "no concurrent writer to the same directory during a save (Service / kvStorage hold their lock across the save)",
    ],
    "search_seeds": 2,
}


def run(ctx):
    vf.standard_run(ctx, SPEC)


def replay(ctx, path):
    import json
    r = json.load(open(path))
    print(json.dumps(r, indent=1))
    print("re-run: ./check C20 --tier %s --seed %s (scenarios are regenerated deterministically from the seed; wallet files carry a timestamp, so byte contents differ but the crash point (scenario, k, cut) is the same)"
          % (r.get("tier", "quick"), r.get("seed", 1)))
    return 0
