"""C19 — the wallet service's memory and disk views never diverge.

Coq: Model/WalletService.v (memory map, wallet directory, fingerprint map; the
Service API incl. failing variants), Proofs/WalletServiceProofs.v (invariant,
preserved by every operation), Properties/C19.v.
Tie: harness/c19 runs random operation sequences on a real wallet.Service; after
every operation the error class, GetWallets() and what a freshly started service
loads from a copy of the directory are compared with the model, and the
decidable form of the property is evaluated on the implementation's outputs."""
import vf

SPEC = {
    "uses_gen": False,
    "cmd": "c19",
    "budget": (100, 1200),
    "header": "From Coq Require Import List String.\nImport ListNotations.\nFrom Sky Require Import Base.Uint Model.WalletService.\nOpen Scope string_scope. Open Scope list_scope. Open Scope Z_scope.",
    "corr": "C19_corr.v",
    "prop": "C19_prop.v",
    "groups": {
        "seq": ("mism_seq", "pf_seq"),
    },
    "describe": lambda g, c: ("history %s, %s" % (c.get("sequence"), c.get("suspect_step"))) if c.get("suspect_step") else
        ("after some operation of this history the memory view and a freshly started service disagree, a failed operation changed something, or two wallets share a fingerprint: %s" % c.get("history")),
    "trusted_base": [
        "abstraction of a real wallet to (file name, type, seed id via its fingerprint, label id, encrypted?, password id found by trying the pool, number of entries, temporary?) done by the harness; wallet-level functions (address generation, lock/unlock) are reduced to these fields",
        "failure of the wallet directory is injected by renaming the directory away for the duration of one operation",
        "wallet types covered: deterministic, collection, bip44 (account 0, per-chain entry counts, scans with a transactions finder reporting activity per chain and index, NewAddresses on either chain) and xpub",
    ],
    "assumptions": [
        "wf_op: address counts >= 0; created wallet files are named *wlt (the HTTP API always lets the service generate the name; a Go caller passing a name without that suffix gets a wallet the next start does not load)",
        "callbacks given to Update / UpdateSecrets change the label only (they do not rename the wallet or change its seed)",
        "no concurrent modification of the wallet directory by another process",
    ],
    "search_seeds": 2,
}


def run(ctx):
    vf.standard_run(ctx, SPEC)


def replay(ctx, path):
    import json
    r = json.load(open(path))
    print(json.dumps(r, indent=1))
    print("the history in 'case.history' lists every operation with its parameters and the two views after it; re-run with ./check C19 --seed %s" % r.get("seed", 1))
    return 0
