"""C06 — the unconfirmed pool only holds admissible transactions and tracks the
chain (real node + publisher vs the Coq model Model/Pool.v, compared after every
operation of generated histories)."""
import vf


def describe(group, case):
    steps = case.get("steps", [])
    return "history of %d operations (%s ...)" % (
        len(steps), ", ".join("%s/%s->%s" % (s.get("op"), s.get("kind"), s.get("out")) for s in steps[:6]))


SPEC = {
    "uses_gen": False,
    "cmd": "c06",
    "budget": (60, 600),
    "header": "From Sky Require Import Base.Uint Model.Pool.\nOpen Scope Z_scope.",
    "corr": "C06_corr.v",
    "prop": "C06_prop.v",
    "groups": {"c06": ("mism_c06", "pf_c06")},
    "describe": describe,
    "search_seeds": 2,
    "side_keys": [],
    "trusted_base": [
        "per-operation verdict bits handed to the model (v_wf: SINGLE-transaction hard rules apart from 'inputs unspent' — used by injection, Refresh, RemoveInvalid; v_blk: the weaker BLOCK-transaction hard rules — used by ExecBlock only; both are computed for every verdict and the side file counts where they differ (outputs with hours near 2^64 whose coin hours overflow after a block, output-hour sums that wrap); v_soft: soft rules under the operation's parameter set, user_ok, hdr_ok of a block) are computed by the harness at the node's head with the transaction package directly, with the inputs' outputs taken from the harness's table of every output ever created — transaction / block-header validation itself is C09/C11/C04",
        "whether a transaction's inputs are unspent is computed by the MODEL from its own unspent set and compared with the node's answer on every injected / block transaction",
        "harness id tables: output ids are small integers, transaction hashes are represented by their first 8 bytes (the harness aborts if two hashes of a history share them)",
        "test hook src/visor/verif_c05.go (build tag verif) used on the PUBLISHER node only, to make blocks at chosen times; the node under test is driven through its exported API",
        "not modelled: timestamps (Received/Checked/Announced), the predicted-unspents bucket, the duplicate-output test of processTransactions",
    ],
    "assumptions": [
        "Refresh / RemoveInvalid verdict lists cover every pooled transaction (hyps_ok, evaluated on every generated history)",
    ],
}


def run(ctx):
    vf.standard_run(ctx, SPEC)


def replay(ctx, path):
    """Re-run the stored case: the harness is deterministic in (seed, tier), so
    the whole generation is repeated with the seed / tier recorded in the replay
    file and evaluated again (the failing case reappears at the same index)."""
    import json
    d = json.load(open(path))
    ctx.seed = int(d.get("seed", ctx.seed))
    ctx.tier = d.get("tier", ctx.tier)
    run(ctx)
    return vf.finish(ctx)
