"""C18 — wallet encryption protects secrets; decryption is robust (hand-written
model Model/WalletCrypt.v + correspondence on mutated ciphertexts and wallet
lock/unlock op sequences)."""
import json
import os

import vf

SPEC = {
    "uses_gen": False,
    "cmd": "c18",
    "budget": (300, 4000),
    "header": "From Coq Require Import Uint63.\nFrom Sky Require Import Base.Uint Base.BytesPack Model.WalletCrypt.\nOpen Scope Z_scope.",
    "corr": "C18_corr.v",
    "prop": "C18_prop.v",
    "groups": {
        "sha": ("mism_sha", "pf_sha"),
        "scrypt": ("mism_scrypt", "pf_scrypt"),
        "wallet": ("mism_wallet", "pf_wallet"),
        "xpub": (None, "pf_xpub"),
        "service": (None, "pf_service"),
    },
    "trusted_base": [
        "Model/WalletCrypt.v (hand-written): framing of Sha256Xor.Decrypt and ScryptChacha20poly1305.Decrypt, wallet Lock/Unlock/packSecrets/unpackSecrets/syncSecrets/Erase of the deterministic, bip44 and collection wallets; compared on this run with the implementation on the generated inputs",
        "oracles of the framing model: base64 decoding, json.Unmarshal of the metadata (value read through src/cipher/encrypt/verif_c18.go), SHA256 and the sha256xor keystream block (computed with the implementation's own functions), scrypt.Key + chacha20poly1305 Open (the call's own result); these primitives are not verified here",
        "Section hypotheses of unlock_restores / wrong_pw_rejected: dec pw (enc pw n d) = Some d and pw' <> pw -> dec pw' (enc pw n d) = None (AEAD property of chacha20poly1305, checksum/hash property of sha256xor; for sha256xor the first law is proved at the framing level as C18_sha256xor_roundtrip); JSON round trip of map[string]string and hex round trip of keys are folded into them",
        "wallet correspondence runs the model with an ideal cipher (ciphertext = (password, data)); secrets/addresses are compared by a fixed-length prefix",
        "harness: case generators, Coq-term printer, error-class mapping (sentinel identity, else message text), child process + RLIMIT_AS 3 GiB + 60 s watchdog for hostile scrypt cost parameters (crash / hang = Panic)",
    ],
    "assumptions": [
        "mem_ok: the scrypt metadata asks for no more memory than the process may allocate (the unrestricted statement is refuted: C18_decrypt_total_scrypt_refuted, known finding); time is not modelled",
        "wf_kind / names_ok / w_ct = None of the wallet being locked (evaluated on every generated wallet): a wallet type's unused secret fields are empty, reserved secret names and account-key names are not addresses, an unencrypted wallet has no secrets field",
        "len data < 2^32 - 32 in the sha256xor round trip",
    ],
}


def _with_fragment(orig):
    """known findings of this property are read from the merged file and, so that
    the check does not depend on the merge having been run, from the fragment."""
    def load(pid):
        out = list(orig(pid))
        try:
            frag = json.load(open(os.path.join(vf.ROOT, "known_findings.d", pid + ".json")))
        except Exception:
            return out
        for f in frag.get("findings", []):
            if f.get("property") == pid and f.get("status") == "known" and f not in out:
                out.append(f)
        return out
    return load


def run(ctx):
    vf.load_known = _with_fragment(vf.load_known)
    vf.standard_run(ctx, SPEC)
