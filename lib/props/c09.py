"""C09 — transaction validity = documented rule set; canonical decoding
(hand-written model Model/TxVerify.v + correspondence with coin.Transaction.Verify /
VerifyUnsigned / VerifyInputSignatures / DeserializeTransaction)."""
import vf
from props import _txw

SPEC = {
    "uses_gen": True,          # the output-coin sum uses the translated mathutil.AddUint64
    "cmd": "c09",
    "budget": (600, 8000),
    "search_seeds": 1,
    "header": "From Sky Require Import Base.Uint Model.ArithSpec Model.TxVerify.\nOpen Scope Z_scope.",
    "gen_header": "",
    "corr": "C09_corr.v",
    "prop": "C09_prop.v",
    "groups": {
        "txn": ("mism_txn", "pf_txn"),
        "big": ("mism_big", "pf_big"),
        "vis": ("mism_vis", "pf_vis"),
        "dec": (None, "pf_dec"),
        "size": ("mism_size", None),
    },
    "trusted_base": [
        "hashes and signatures are data: inner hash, encoded size, output ids and per-signature verdicts are computed by the implementation (cipher, encoder) and handed to the model; 32-byte values are replaced by per-case ids through the harness id table (injective by construction)",
        "premise facts_consistent (output ids injective in the output = SHA-256 collision freedom on the transaction; encoder fails exactly above 65535 elements; 64-bit amounts) — its boolean form is evaluated on every generated case",
        "translator for mathutil.AddUint64 (validated by C31's translation validation)",
        "harness generators, Coq-term printer, error identity = message text (Model/TxVerify.v E_* constants)",
        "canonical decoding is checked on the implementation (Go byte comparison, repeated in Coq on a sample); the theorem for all byte strings is C21's generic codec round trip",
    ],
    "assumptions": ["coin.DebugLevel2 = true (failed VerifyInputSignatures prelude panics)"],
}


def run(ctx):
    _txw.run_precompiled(ctx, SPEC)


def replay(ctx, path):
    return _txw.replay(ctx, SPEC, path)
