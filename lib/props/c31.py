"""C31 — checked arithmetic, fee and coin-hour formulas (translator tie + translation validation)."""
import vf

SPEC = {
    "uses_gen": True,
    "cmd": "c31",
    "budget": (400, 20000),
    "header": "From Sky Require Import Base.Uint Model.ArithSpec.\nOpen Scope Z_scope.",
    "gen_header": "From Sky Require Import Gen.Mathutil Gen.Fee Gen.CoinHours.",
    "corr": "C31_corr.v",
    "prop": "C31_prop.v",
    "groups": {
        "add64": ("mism_add64", "pf_add64"),
        "mul64": ("mism_mul64", "pf_mul64"),
        "add32": ("mism_add32", "pf_add32"),
        "u2i": ("mism_u2i", "pf_u2i"),
        "i2u": ("mism_i2u", "pf_i2u"),
        "int2u32": ("mism_int2u32", "pf_int2u32"),
        "reqfee": ("mism_reqfee", "pf_reqfee"),
        "remaining": ("mism_remaining", "pf_remaining"),
        "vfee": ("mism_vfee", "pf_vfee"),
        "coinhours": ("mism_coinhours", "pf_coinhours"),
    },
    "trusted_base": [
        "translator /verif/translator (Go->Gallina for mathutil, fee, UxOut.CoinHours), validated on this run against the implementation on the generated points",
        "Go `int` is 64 bits (IntToUint32)",
        "harness printer of inputs/outputs as Coq terms; error identity = sentinel name or message prefix",
    ],
    "assumptions": ["arguments are in range of their Go types (in_u 64 / in_u 32 / in_s 64) — guaranteed by the Go type system"],
}


def run(ctx):
    vf.standard_run(ctx, SPEC)
