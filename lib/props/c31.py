"""C31 — checked arithmetic, fee and coin-hour formulas (translator tie + translation validation).
Also validates the translator's loop extension (translator/loops.go): the regenerated
Gen/CoinLoops.v (OutputHours, UxArray.Coins/CoinHours, VerifyTransactionCoinsSpending /
HoursSpending) and Gen/FeeTxn.v (fee.TransactionFee, fee.VerifyTransactionFee) against the real functions (groups l_*);
C03/C11/C01 prove their hand models equal to these definitions."""
import vf

SPEC = {
    "uses_gen": ["Mathutil", "Fee", "CoinHours", "Page", "Droplet", "CoinLoops", "FeeTxn", "CoinTruncate"],
    "cmd": "c31",
    "budget": (400, 20000),
    "header": "From Sky Require Import Base.Uint Model.ArithSpec Model.HoursSpec.\nOpen Scope Z_scope.",
    "gen_header": "From Sky Require Import Gen.Mathutil Gen.Fee Gen.CoinHours Gen.CoinLoops Gen.FeeTxn Gen.CoinTruncate.",
    "corr": "C31_corr.v",
    "prop": "C31_prop.v",
    "groups": {
        "add64": ("mism_add64", "pf_add64"),
        "mul64": ("mism_mul64", "pf_mul64"),
        "add32": ("mism_add32", "pf_add32"),
        "u2i": ("mism_u2i", "pf_u2i"),
        "i2u": ("mism_i2u", "pf_i2u"),
        "int2u32": ("mism_int2u32", "pf_int2u32"),
        "reqfee": ("mism_reqfee", "pf_reqfee"),
        "remaining": ("mism_remaining", "pf_remaining"),
        "vfee": ("mism_vfee", "pf_vfee"),
        "coinhours": ("mism_coinhours", "pf_coinhours"),
        # loops over slices (Gen/CoinLoops.v, Gen/FeeTxn.v); one shared case list
        "l_oh": ("mism_l_oh", "pf_l_oh"),
        "l_uxcoins": ("mism_l_uxcoins", "pf_l_uxcoins"),
        "l_uxhours": ("mism_l_uxhours", "pf_l_uxhours"),
        "l_vcs": ("mism_l_vcs", "pf_l_vcs"),
        "l_vhs": ("mism_l_vhs", "pf_l_vhs"),
        "l_txfee": ("mism_l_txfee", "pf_l_txfee"),
        "l_vtf": ("mism_l_vtf", "pf_l_vtf"),
        "l_trunc": ("mism_l_trunc", "pf_l_trunc"),
    },
    "trusted_base": [
        "translator /verif/translator (Go->Gallina for mathutil, fee, UxOut.CoinHours; loops over slices of structs for Transaction.OutputHours, UxArray.Coins / CoinHours, VerifyTransactionCoinsSpending / HoursSpending, fee.TransactionFee / VerifyTransactionFee, Transactions.TruncateBytesTo), validated on this run against the implementation on the generated points",
        "projection of slice arguments to lists of the integer fields the function uses (named in the translator's manifest and in the comment above each Gen definition), rebuilt by the harness",
        "TruncateBytesTo: what txns[i].Size() returns (value, error) is DATA of each list element (the method is not translated; assumed a pure function of the transaction)",
        "Go `int` is 64 bits (IntToUint32)",
        "harness printer of inputs/outputs as Coq terms; error identity = sentinel name or message prefix",
    ],
    "assumptions": ["arguments are in range of their Go types (in_u 64 / in_u 32 / in_s 64) — guaranteed by the Go type system"],
}


def run(ctx):
    vf.standard_run(ctx, SPEC)
