"""C25 — only correctly introduced peers reach the protocol (IntroductionMessage.Verify + onMessageEvent gate)."""
import vf


def describe(group, case):
    if group == "verify":
        return "IntroductionMessage{Mirror:%s ProtocolVersion:%s Extra:%s (%s bytes)}.Verify = %s disagrees with the declarative acceptance condition" % (
            case.get("mirror"), case.get("version"), case.get("extra_hex"), case.get("extra_len"), case.get("result"))
    return "daemon config [%s], messages delivered to a fresh connection: %s" % (case.get("config"), case.get("messages"))


SPEC = {
    "cmd": "c25",
    "budget": (1, 12),
    "header": "From Coq Require Import Init.Byte Strings.Byte.\nFrom Sky Require Import Base.Uint Model.Intro.\nOpen Scope Z_scope.",
    "corr": "C25_corr.v",
    "prop": "C25_prop.v",
    "precompile_data": True,
    "describe": describe,
    "groups": {
        "verify": ("mism_verify", "pf_verify"),
        "gate": ("mism_gate", "pf_gate"),
    },
    "trusted_base": [
        "hand-written model Model/Intro.v of IntroductionMessage.Verify (offsets 33 / 9 / length-prefixed user agent <= 256 / optional 32-byte genesis hash; explicit slices that panic when out of range) and of the onMessageEvent gate; compared with the implementation on every run",
        "user agent validity (useragent.Parse . Sanitize: regexp + semver) is an oracle: the harness evaluates it on the string at the code's offset; the correspondence checks that the model asks about that same string",
        "verif hooks src/daemon/verif_c25.go (daemon with one socket-less connection, networking disabled, events handled synchronously by handleEvent) and src/daemon/gnet/verif_c25.go (socket-less connection in the pool)",
        "gate environment: block / transaction handlers return at once (DisableNetworking), the peer's socket is never closed by the harness, listen address 1.2.3.4:6000 is a valid peer address",
    ],
    "assumptions": ["Extra is a byte string (every element in 0..255) — premise is_bytes of the theorems"],
}


def run(ctx):
    vf.standard_run(ctx, SPEC)
