"""C10 — no third-party malleability; only low-s signatures with recid < 4 accepted or produced.
Mode B: the acceptance predicates of crypto.go as coded (Model/SigAccept.v) against the
implementation on a malleation catalogue; the property itself (a malleated object that is
accepted in the same role must be byte-identical) is evaluated on the implementation's own
answers.  Known finding F12: the verifier tests bit 255 of s, not s <= n/2."""
import modeb


def judge(c, m, byid, outs):
    flat = c["flat"]
    if c["op"] != "nop" and m != c["observed"]:
        return ("correspondence", "acceptance predicate: model %r, implementation %r (%s, %s)"
                % (m, c["observed"], flat.get("check"), flat.get("mutation")))
    if flat.get("high_s") == "yes" and flat.get("accepted") == "yes":
        return ("property", "a signature with s = halfOrder+1 > n/2 is accepted by %s (\"only low-s signatures are accepted\" is false)"
                % flat.get("check"))
    if flat.get("genuine_refused") == "yes":
        return ("property", "the genuine signed block is refused by the %s after a rejected alteration (%s)" % (flat.get("role"), flat.get("mutation")))
    if flat.get("concurrent_equal") == "no":
        return ("property", "an acceptance check answers differently when other goroutines are inside the library: %s: sequential %s, concurrent %s"
                % (str(flat.get("call"))[:200], flat.get("sequential"), flat.get("concurrent")))
    if flat.get("accepted") == "yes" and flat.get("same") == "no":
        return ("property", "malleation %r of a valid %s gives different bytes that are accepted in the same role (%s)"
                % (flat.get("mutation"), flat.get("role"), flat.get("check", flat.get("role"))))
    return None


def post(ctx, cases, outs, sj, state):
    # the F12 replay must have been exercised: if the crafted in-window signatures are no longer
    # accepted (upstream repair), the known finding is stale and the model no longer matches
    f12 = [c for c in cases if c["group"] in ("f12", "f12w")]
    ctx.coverage["f12_replayed_cases"] = len(f12)


SPEC = {
    "uses_gen": ["Crypto"],
    "cmd": "c10",
    "budget": (12, 150),
    "model_vos": ["Model/Secp.vo", "Model/SigAccept.vo"],
    "judge": judge,
    "post": post,
    "trusted_base": [
        "kernel vm_compute is trusted for two closed computations (smulx n G = Inf; acceptance of the F12 witness); coqchk is not run on this property because it has no VM",
        "premises of sign_accepted / malleated_accepted_iff (NOT proved): prime p, prime n, padd_associative, sqrt_correct (see C14)",
        "transaction and block roles are checked on the implementation only (Transaction.Verify + VerifyInputSignatures; SignedBlock.VerifySignature + body hash); "
        "their structure (inner hash covers In/Out, exact decoding) is not modelled here (C09/C21 cover decoding)",
        "translator tables_crypto.go (secp256k1 constants -> Gen/SecpConsts.v)",
    ],
    "assumptions": [
        "a third party does not know the signing keys: the catalogue applies key-less transformations only",
        "F12 cannot be exhibited in the transaction role (the signed hash depends on the address of the recovered key); it is replayed in the signature and block roles with a self-made key",
    ],
}


def run(ctx):
    # coqchk (no VM) cannot re-check the kernel computations these theorems rest on (n*G = O on the
    # Jacobian execution, the F12 witness: whole 256-bit scalar multiplications under lazy
    # conversion take tens of minutes while holding the build lock) — stated in the trusted base
    import os
    os.environ["VERIF_NO_COQCHK"] = "1"
    ctx.notes.append("coqchk is not run for this property: vm_compute certificates (order_G_exec / f12_accepted) are not re-checkable without the VM in reasonable time")
    modeb.standard_run(ctx, SPEC)


def replay(ctx, path):
    return modeb.replay(ctx, SPEC, path)
