"""C21 — generated binary codecs == reference encoder (generic codec theorems over
regenerated schemas + three-way correspondence)."""
import vf

SPEC = {
    "uses_gen": ["Schemas"],
    "cmd": "c21",
    "budget": (3, 30),
    "header": "From Coq Require Import ZArith List Bool String.\nFrom Sky Require Import Base.Uint Model.Codec.\nImport ListNotations.\nOpen Scope Z_scope.",
    "gen_header": "From Sky Require Import Gen.Schemas.",
    "corr": "C21_corr.v",
    "prop": "C21_prop.v",
    "groups": {"enc": ("mism_enc", "pf_enc"), "dec": ("mism_dec", "pf_dec")},
    "must_be_true": ["names_agree", "all_wf"],
    "trusted_base": [
        "translator unit Schemas: schema of each generated codec's type derived from struct definitions + enc tags (go/types), re-derived on every run",
        "harness: reflection walk producing the model value of a Go value; error-kind mapping by sentinel identity",
        "byte strings handed to decoders are bytes (bytes_ok) — by construction",
    ],
    "assumptions": [
        "the generated encoder/decoder functions are compared with the model on generated values and byte strings, not proved line by line",
        "values with >= 2^32 elements are not generated",
    ],
}


def run(ctx):
    vf.standard_run(ctx, SPEC)
