"""C21 — generated binary codecs == reference encoder (generic codec theorems over
regenerated schemas + three-way correspondence)."""
import vf

SPEC = {
    "uses_gen": ["Schemas"],
    "cmd": "c21",
    "budget": (3, 30),
    "header": "From Coq Require Import ZArith List Bool String.\nFrom Sky Require Import Base.Uint Model.Codec.\nImport ListNotations.\nOpen Scope Z_scope.",
    "gen_header": "From Sky Require Import Gen.Schemas.",
    "corr": "C21_corr.v",
    "prop": "C21_prop.v",
    "groups": {"enc": ("mism_enc", "pf_enc"), "dec": ("mism_dec", "pf_dec"), "reuse": (None, "pf_reuse")},
    "must_be_true": ["names_agree", "all_wf"],
    "trusted_base": [
        "translator unit Schemas: schema of each generated codec's type derived from struct definitions + enc tags (go/types), re-derived on every run",
        "harness: reflection walk producing the model value of a Go value; error-kind mapping by sentinel identity",
        "byte strings handed to decoders are bytes (bytes_ok) — by construction",
    ],
    "assumptions": [
        "the generated encoder/decoder functions are compared with the model on generated values and byte strings, not proved line by line",
        "values with >= 2^32 elements are not generated",
    ],
}


def deep_search(ctx):
    """After a break that the model-sized search could not turn into a failing
    input: generated vs reference codec on the implementation alone, with
    element counts far beyond what Coq can evaluate (harness c21 -extra big)."""
    import json, os
    out = os.path.join(vf.BUILD, "data_C21_big_%d" % os.getpid())
    rc, log = vf.harness("c21", ["-extra", "big", "-seed", ctx.seed, "-out", out + ".v", "-json", out + ".json"], timeout=1500)
    hits = []
    try:
        sj = json.load(open(out + ".json"))
        ctx.coverage["deep_search_tried"] = sj.get("deep_tried", 0)
        for h in sj.get("deep_hits", []):
            hits.append((h, "property fails on the implementation (generated codec vs reference encoder): %s field path %s with %s elements: %s: generated '%s', reference '%s'"
                         % (h["type"], h["path"], h["count"], h["api"], h["generated"], h["reference"])))
    except Exception as e:  # the search is best effort
        ctx.coverage["deep_search_error"] = str(e)[:200] + " " + log[-300:]
    for ext in (".v", ".json"):
        try:
            os.remove(out + ext)
        except OSError:
            pass
    return hits


SPEC["deep_search"] = deep_search
SPEC["deep_search_first"] = True   # two minutes, against ten per model-sized search round
SPEC["search_seeds"] = 2


def run(ctx):
    vf.standard_run(ctx, SPEC)
