"""C16 — BIP32/39/44 match the standards.  Mode B: the Coq model of the standards (Model/Bip.v,
hash functions = oracles answered by Python hashlib/hmac/unicodedata) against src/cipher/bip39,
bip32, bip44; the public/private derivation commutation is also decided on the implementation's
own outputs; the published test vectors are replayed through the model on every run."""
import hashlib
import json
import os
import re

import modeb
import vf

B58 = "123456789ABCDEFGHJKLMNPQRSTUVWXYZabcdefghijkmnopqrstuvwxyz"


def b58decode(s):
    v = 0
    for ch in s:
        v = v * 58 + B58.index(ch)
    raw = v.to_bytes((v.bit_length() + 7) // 8, "big")
    pad = len(s) - len(s.lstrip("1"))
    return b"\0" * pad + raw


def gen_wordlist():
    """words of the regenerated Gen/Bip39Words.v"""
    src = open(os.path.join(vf.COQ, "Gen", "Bip39Words.v")).read()
    body = src[src.index(":="):]
    body = body.replace('("adm" ++ "it")', '"admit"')
    return re.findall(r'"([a-z]+)"', body)


def judge(c, m, byid, outs):
    flat = c["flat"]
    if c["group"] == "alias":
        if flat.get("unchanged") != "yes":
            return ("property", "a bip32/bip39 call modified its input (%s): %s -> %s"
                    % (flat.get("call"), str(flat.get("before"))[:60], str(flat.get("after"))[:60]))
        return None
    if c["group"] == "commute":
        if flat.get("commutes") != "yes":
            return ("property", "N(CKDpriv(k,i)) differs from CKDpub(N(k),i) for i=%s: %s vs %s"
                    % (flat.get("index"), str(flat.get("neuter_of_ckdpriv"))[:40], str(flat.get("ckdpub_of_neuter"))[:40]))
        return None
    if m != c["observed"]:
        return ("property", "%s: the standard (model) gives %r, the implementation %r"
                % (c["op"], (m or "")[:120], c["observed"][:120]))
    return None


def post(ctx, cases, outs, sj, state):
    # 1. the word list the implementation uses is the regenerated one the theorems are about
    words = gen_wordlist()
    digest = hashlib.sha256("\n".join(words).encode()).hexdigest()
    ctx.coverage["wordlist_words"] = len(words)
    if digest != sj.get("wordlist_sha256"):
        state["found"] = True
        vf.violation(ctx, {"broken": "word list", "gen_sha256": digest, "impl_sha256": sj.get("wordlist_sha256")}, False,
                     "the implementation's English word list differs from the regenerated Gen/Bip39Words.v", "-wordlist")
    # 2. published vectors through the model (the model itself against the standards)
    if state.get("vectors_done"):
        return
    state["vectors_done"] = True
    vec = json.load(open(os.path.join(vf.ROOT, "corpus", "C16", "vectors.json")))
    runner = os.path.join(vf.BUILD, "mb_c16", "c16_runner")
    q, want = [], {}
    for i, v in enumerate(vec["bip32"]):
        q.append(("v32prv%d" % i, "frompath %s %s" % (v["seed"], v["path"].encode().hex())))
        want["v32prv%d" % i] = b58decode(v["xprv"]).hex()
        q.append(("v32pub%d" % i, "frompathpub %s %s" % (v["seed"], v["path"].encode().hex())))
        want["v32pub%d" % i] = b58decode(v["xpub"]).hex()
    for i, v in enumerate(vec["bip39"]):
        q.append(("v39mn%d" % i, "newmn %s" % v["entropy"]))
        want["v39mn%d" % i] = v["mnemonic"].encode().hex()
        q.append(("v39ent%d" % i, "entmn %s" % v["mnemonic"].encode().hex()))
        want["v39ent%d" % i] = v["entropy"]
        q.append(("v39seed%d" % i, "seed %s %s" % (v["mnemonic"].encode().hex(), v["passphrase"].encode().hex())))
        want["v39seed%d" % i] = v["seed"]
    res, ncalls, err = modeb.run_model(runner, q)
    bad = [(k, res.get(k), want[k]) for k, _ in q if res.get(k) != want[k]]
    ctx.coverage["published_vectors_replayed"] = len(q)
    ctx.coverage["published_vector_mismatches"] = len(bad)
    if err or bad:
        state["found"] = True
        vf.violation(ctx, {"broken": "the model does not reproduce a published BIP32/BIP39 test vector", "error": err,
                           "first": [{"case": k, "model": str(a)[:200], "published": b[:200]} for k, a, b in bad[:5]]}, bool(bad),
                     "model vs published vectors: %d mismatches" % len(bad), "-vectors")


SPEC = {
    "uses_gen": ["Crypto"],
    "cmd": "c16",
    "budget": (60, 3000),
    "model_vos": ["Model/Secp.vo", "Model/Bip.vo", "Model/BipWords.vo", "Gen/Bip39Words.vo"],
    "judge": judge,
    "post": post,
    "trusted_base": [
        "kernel vm_compute is trusted for two closed computations (smulx n G = Inf; acceptance of the F12 witness); coqchk is not run on this property because it has no VM",
        "hash functions are oracles, not modelled: SHA-256, HMAC-SHA512, RIPEMD160(SHA256), PBKDF2-HMAC-SHA512 and Unicode NFKD are "
        "answered by Python hashlib / hmac / unicodedata; theorems assume only that they are functions returning byte strings of the right length",
        "premises of ckd_commute (NOT proved): prime p, prime n, padd_associative, sqrt_correct (see C14)",
        "translator tables_crypto.go (word list -> Gen/Bip39Words.v, bip32 constants -> Gen/Bip32Consts.v); the implementation's word list is "
        "compared with the regenerated one by digest on every run",
        "published BIP32 (vectors 1-3) and BIP39 (Trezor) test vectors, corpus/C16/vectors.json, replayed through the model on every run",
    ],
    "assumptions": [
        "IL = 0 in CKDpriv/CKDpub (an HMAC-SHA512 output whose left half is zero): the standard accepts it, the implementation reports an impossible child; not exhibitable",
        "only the English word list is supported by the implementation (and modelled)",
    ],
}


def run(ctx):
    # coqchk (no VM) cannot re-check the kernel computations these theorems rest on (n*G = O on the
    # Jacobian execution, the F12 witness: whole 256-bit scalar multiplications under lazy
    # conversion take tens of minutes while holding the build lock) — stated in the trusted base
    import os
    os.environ["VERIF_NO_COQCHK"] = "1"
    ctx.notes.append("coqchk is not run for this property: vm_compute certificates (order_G_exec / f12_accepted) are not re-checkable without the VM in reasonable time")
    modeb.standard_run(ctx, SPEC)


def replay(ctx, path):
    return modeb.replay(ctx, SPEC, path)
