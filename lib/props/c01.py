"""C01 — coin supply conserved (ledger model + correspondence with a real visor node)."""
import vf

LEDGER_TB = [
    "hand-written ledger model coq/Model/Ledger.v of Visor.ExecuteSignedBlock (non-arbitrating node), tied on every run by harness/c01: a real visor.Visor on a bolt file executes generated histories of valid and mutated signed blocks; after EVERY op the verdict (error class) and projected state are compared with the model's — C01/C02: processTransactions / ProcessBlock verdict for the spend, creation and coin-sum checks and the sorted unspent set (id, coins, hours); C04: signature / genesis / header / checksum / duplicate-hash verdict and the stored head (hash, seq, time, re-read header hash, stored signature validity); lemma exec_block_pieces proves the model's step is exactly the sequence of these pieces",
    "translated mathutil.AddUint64 / UxOut.CoinHours (Gen/Mathutil.v, Gen/CoinHours.v, regenerated from /repo on every run; specification lemma AddUint64_spec from C31)",
    "hashes and signatures are data: ids assigned injectively by the harness (one table per history), signature-validity bits computed by the implementation's cipher package; theorem hypothesis ids_consistent (SHA-256 collision freedom + the id table) evaluated on every history (premises_ok)",
    "harness: block/transaction generators, error-to-enum mapping (by error type / fixed message), Coq-term printer with sharing of identical terms, state digest; boltdb atomic Update is modelled as atomicity and checked by digest equality after rejected blocks",
    "both node configurations are modelled and exercised: follower (non-arbitrating) and arbitrating block publisher (processTransactions sorts by fee/hash using the transaction size and the first 8 hash bytes supplied by the harness, drops invalid / conflicting transactions; the body the node stored is re-read and compared with the model's kept list); not modelled: unconfirmed pool and history db updates of executeSignedBlockUnsafe (covered only through the digest / CheckDatabase verdict; a rejection by HistoryDB.ParseBlock is taken as a no-op)",
]
LEDGER_ASSUME = [
    "amounts are 64-bit values (ops_in_range / genesis_wf: Go's uint64), the genesis block has distinct output ids and no inputs",
    "ids_consistent g U for the C02 clauses that mention the whole chain (an output id determines its source transaction hash, a transaction hash determines its inputs, genesis ids are not reused)",
]


def describe(group, case):
    if case.get("kind") == "init":
        return "history %s op 0: node start-up (Visor.Init on an empty db); attempts with other genesis signatures: %s" % (
            case.get("hist"), case.get("start_attempts"))
    return "history %s op %s: %s block (re-signed=%s, seq %s on head %s) -> %s" % (
        case.get("hist"), case.get("op"), case.get("kind"), case.get("resigned"), case.get("block_seq"),
        case.get("head_seq_before"), case.get("result") or "accepted")


def spec(pid, pf):
    return {
        "uses_gen": ["Mathutil", "CoinHours", "CoinLoops"],   # CoinLoops: C01_*_is_translated (Proofs/LedgerRefine.v)
        "cmd": "c01",
        "budget": (12, 300),
        "header": "From Sky Require Import Base.Uint Model.LedgerTypes Model.LedgerObs.\nOpen Scope Z_scope.",
        "gen_header": "From Sky Require Import Model.Ledger Model.LedgerReplay.",
        "corr": "%s_corr.v" % pid,
        "prop": "%s_prop.v" % pid,
        "groups": {"ops": ("mism_ops", pf)},
        "must_be_true": ["premises_ok"],
        "describe": describe,
        "trusted_base": LEDGER_TB,
        "assumptions": LEDGER_ASSUME,
        "search_seeds": 1,
    }


SPEC = spec("C01", "pf_c01")


def run(ctx):
    vf.standard_run(ctx, SPEC)


def replay(ctx, path):
    """Re-run the stored case: the harness is deterministic in (seed, tier), so the
    generation is repeated with the seed / tier recorded in the replay file and
    evaluated again (the failing op reappears at the same index)."""
    import json
    d = json.load(open(path))
    ctx.seed = int(d.get("seed", ctx.seed))
    ctx.tier = d.get("tier", ctx.tier)
    run(ctx)
    return vf.finish(ctx)
