"""C22 — the wire protocol frames and parses any byte stream correctly
(hand model Model/Framing.v, correspondence with gnet's decodeData / convertToMessage /
ConnectionPool over net.Pipe)."""
import vf

SPEC = {
    "uses_gen": False,
    "precompile_data": True,
    "cmd": "c22",
    "budget": (60, 600),
    "header": "From Sky Require Import Base.Uint Base.BytesPack Model.Framing.\nFrom Coq Require Import List Uint63.\nImport ListNotations.\nOpen Scope Z_scope.",
    "corr": "C22_corr.v",
    "prop": "C22_prop.v",
    "groups": {
        "stream": ("mism_stream", "pf_stream"),
        "convert": ("mism_convert", "pf_convert"),
        "pool": ("mism_pool", "pf_pool"),
        "big": ("mism_big", "pf_big"),
        "table": ("mism_table", None),
        "consts": ("mism_consts", None),
    },
    "trusted_base": [
        "hand-written model Model/Framing.v of decodeData/readLoop/convertToMessage, compared on this run with the implementation (decodeData driven through one persistent bytes.Buffer; the same reads through the REAL readLoop via a net.Conn that hands out the injected reads; convertToMessage; ConnectionPool.handleConnection over net.Pipe, including frames of 33-300 KB followed at once by further frames) on the generated streams",
        "decoder verdict (panic / error / bytes used) per frame is oracle data taken from the registered type's own Decode (the codecs are the subject of C21)",
        "message-id table and the two length constants are compared with gnet.MessageIDReverseMap / gnet constants on every run",
        "handler totality is observed, not proved: each message produced by convertToMessage is run through its real Handle + process on the recording daemoner (hook VerifC23Node.VerifC23Deliver) under recover; the Coq side only requires the 'no handler panicked' column",
        "harness printer of inputs/outputs as Coq terms; disconnect reasons identified by sentinel identity",
    ],
    "assumptions": [
        "bursts fit the per-connection receive queue (32 frames): readLoop disconnects with 'msgChan is closed or full' otherwise; the queue is not in the model",
        "bytes.Buffer.Write/Read/Next and the socket behave as documented; read timeouts are not modelled",
    ],
}


def run(ctx):
    vf.coq_make(["Base/BytesPack.vo"])   # data helpers of the cases files (not a dependency of Properties/C22.vo)
    vf.standard_run(ctx, SPEC)


def replay(ctx, path):
    """Re-run the stored case: the harness is deterministic in (seed, tier), so the
    generation is repeated with the seed / tier recorded in the replay file and
    evaluated again (the failing case reappears at the same index)."""
    import json
    d = json.load(open(path))
    ctx.seed = int(d.get("seed", ctx.seed))
    ctx.tier = d.get("tier", ctx.tier)
    run(ctx)
    return vf.finish(ctx)
