"""C11 — fee and soft rules accept exactly the transactions they should; soft failures are
soft, hard failures hard (Model/Soft.v over the regenerated fee / droplet / CoinHours /
VerifyTxn.Validate arithmetic; correspondence with transaction.VerifySingleTxnSoftConstraints)."""
from props import _hrs

SPEC = {
    "uses_gen": ["Fee", "CoinHours", "Droplet", "VerifyParams", "CoinLoops", "FeeTxn"],   # closes over Mathutil
    "cmd": "c11",
    "budget": (300, 10000),
    "header": "From Sky Require Import Base.Uint Model.ArithSpec Model.HoursSpec Model.SoftSpec.\nOpen Scope Z_scope.",
    "gen_header": "From Sky Require Import Gen.Mathutil Gen.Fee Gen.Droplet Gen.CoinHours Gen.VerifyParams Model.Hours Model.Soft.",
    "corr": "C11_corr.v",
    "prop": "C11_prop.v",
    "groups": {
        "soft": ("mism_soft", "pf_soft"),
        "cross": (None, "pf_cross"),
        "hard": ("mism_hard", "pf_hard"),
        "fee": ("mism_fee", "pf_fee"),
        "locked": ("mism_locked", "pf_locked"),
        "params": ("mism_params", "pf_params"),
        "vfee": ("mism_vfee", "pf_vfee"),
        "entry": ("mism_entry", "pf_entry"),   # call-site level: each entry point of a real visor applies its own parameter set
    },
    "search_seeds": 2,
    "trusted_base": [
        "translator /verif/translator (Go->Gallina) for fee.VerifyTransactionFeeForHours, RequiredFee, params.DropletPrecisionCheck / DropletPrecisionToDivisor, VerifyTxn.Validate, UxOut.CoinHours, AddUint64 and (loops over slices / method calls, Gen/FeeTxn.v, Gen/CoinLoops.v) fee.TransactionFee, fee.VerifyTransactionFee, UxArray.CoinHours, Transaction.OutputHours — regenerated on this run; validated here (params, vfee groups) and by C31 (groups l_*)",
        "fee.TransactionFee, fee.VerifyTransactionFee of Model/Soft.v and the loops of Model/Hours.v they call are PROVED equal to the regenerated Gen/FeeTxn.v / Gen/CoinLoops.v for all inputs (C11_*_is_translated, Proofs/SoftRefine.v, Proofs/HoursRefine.v); still hand-written and compared with the running code on this run's cases: the statement order of verifyTxnSoftConstraints, TransactionIsLocked, the precision loop",
        "encoded size and its error are data computed by the implementation (txn.Size()); addresses are ids, the harness maps distinct addresses to distinct ids (checked when the pool is built)",
        "call-site level (group entry): real visor.Visor with differing user / unconfirmed / create-block parameter sets; Visor.InjectUserTransaction, InjectForeignTransaction, CreateBlockFromTxns on the same transactions; the wallet-API call sites (CreateTransaction etc.) and the daemon gateway wrapper are not exercised",
        "harness generator, Coq-term printer, error classes by the Go TYPE of the wrapper (ErrTxnViolatesSoftConstraint / HardConstraint), names by sentinel identity",
    ],
    "assumptions": [
        "parameters pass VerifyTxn.Validate (burn factor 2..2^32-1, max size 1024..2^32-1, precision 0..6) and Distribution.Validate (unlocked count <= number of addresses); outside this range the code may panic (division by zero, precision > 6) — the model predicts those panics and they are compared, but the theorems do not cover them",
        "all times, coins, hours are 64-bit values — guaranteed by the Go types",
    ],
}


def run(ctx):
    _hrs.run_precompiled(ctx, SPEC)


def replay(ctx, path):
    return _hrs.replay(ctx, SPEC, path)
