"""C13 — wallet signing signs exactly the requested inputs
(hand-written model Model/Sign.v over an abstract signature scheme + correspondence
with wallet.SignTransaction on real wallets of every type)."""
import vf
from props import _txw

SPEC = {
    "uses_gen": False,
    "cmd": "c13",
    "budget": (400, 8000),
    "search_seeds": 1,
    "header": "From Sky Require Import Base.Uint Model.ArithSpec Model.TxVerify Model.Create Model.Sign.\nOpen Scope Z_scope.",
    "gen_header": "",
    "corr": "C13_corr.v",
    "prop": "C13_prop.v",
    "groups": {
        "sign": ("mism_sign", "pf_sign"),
    },
    "trusted_base": [
        "signature scheme abstract in the theorems; premises: sign k m is never the null signature, distinct secret keys have distinct addresses, verify (addr_of k) (sign k m) m = true (ECDSA correctness: C14 / C10)",
        "correspondence evaluates the model with a concrete test scheme (t_sign / t_verify in Model/Sign.v); the harness states for every pre-existing signature which known key produced it over which input's message and the observables (changed / null / cipher.VerifyAddressSignedHash against the owner) are compared per position",
        "keys, addresses, inputs are ids from the harness tables (key id = id of its address); wallet = type, encrypted flag, secret keys of GetEntries() in order",
        "map iteration order in the signing loop does not influence the result (modelled in list order)",
        "harness generators, Coq-term printer, error identity = sentinel or message prefix",
    ],
    "assumptions": ["transactions have at most 65535 signatures / inputs / outputs (otherwise copyTransaction panics in Transaction.Hash)",
                    "wallet entries hold valid secret keys (cipher.MustSignHash panics on an invalid key)"],
}


def run(ctx):
    _txw.run_precompiled(ctx, SPEC)


def replay(ctx, path):
    return _txw.replay(ctx, SPEC, path)
