"""C02 — unspent set = created minus spent, no double spend (shares the ledger harness of C01)."""
import vf
from props import c01

SPEC = c01.spec("C02", "pf_c02")


def run(ctx):
    vf.standard_run(ctx, SPEC)


def replay(ctx, path):
    """Re-run the stored case: the harness is deterministic in (seed, tier), so the
    generation is repeated with the seed / tier recorded in the replay file and
    evaluated again (the failing op reappears at the same index)."""
    import json
    d = json.load(open(path))
    ctx.seed = int(d.get("seed", ctx.seed))
    ctx.tier = d.get("tier", ctx.tier)
    run(ctx)
    return vf.finish(ctx)
