"""C02 — unspent set = created minus spent, no double spend (shares the ledger harness of C01)."""
import vf
from props import c01

SPEC = c01.spec("C02", "pf_c02")


def run(ctx):
    vf.standard_run(ctx, SPEC)
