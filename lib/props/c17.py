"""C17 — wallet address derivation is deterministic and consistent (hand-written
model Model/Wallets.v + correspondence on generate/scan/save+reload sequences
over all four wallet types)."""
import vf

SPEC = {
    "uses_gen": False,
    "cmd": "c17",
    "budget": (60, 1200),
    "header": "From Coq Require Import String Arith.\nFrom Sky Require Import Base.Uint Model.Wallets.\nOpen Scope nat_scope.",
    "corr": "C17_corr.v",
    "prop": "C17_prop.v",
    "groups": {
        "det": ("mism_det", "pf_det"),
        "idx": ("mism_idx", "pf_idx"),
        "coll": (None, "pf_coll"),
    },
    "trusted_base": [
        "Model/Wallets.v (hand-written): GenerateAddresses / ScanAddresses / NewWallet options of the deterministic wallet (lastSeed chaining) and of bip44 chains and xpub wallets (index derivation); compared on this run, state by state, with the implementation",
        "derivation oracles of the correspondence: cipher.DeterministicKeyPairIterator iterated directly; BIP44 private-path derivation m/44'/coin'/acct'/chain/i with the cipher/bip39, bip44, bip32 primitives (not the wallet code); their correctness is the subject of C14/C16",
        "premise of entry_coherent_bip44: public and private BIP32 child derivation commute (C16); checked on every generated entry (address == AddressFromPubKey(pub), pub == PubKeyFromSecKey(sec))",
        "save + reload is the identity in the model; wallet.Save / wallet.Load are exercised by the harness on every SaveReload op (file durability is C20)",
        "harness: generators, fake TransactionsFinder, Coq-term printer; addresses compared by a 12-character prefix",
    ],
    "assumptions": [
        "wallets are not encrypted while generating (Lock/Unlock is C18); bip44 coin type skycoin; at most 2 accounts and < 40 addresses per chain in the correspondence runs",
    ],
}


def run(ctx):
    vf.standard_run(ctx, SPEC)
