"""C14 — the secp256k1 implementation agrees with the curve mathematics (Mode B correspondence
with the textbook model Model/Secp.v; ECDSA algebra proved under the group-law premises)."""
import modeb

SPEC = {
    "uses_gen": True,
    "cmd": "c14",
    "budget": (150, 5000),
    "model_vos": ["Model/Secp.vo", "Model/SigAccept.vo"],
    "trusted_base": [
        "premises of the Section GroupLaw theorems (NOT proved; no elliptic-curve library in the sandbox): prime p, prime n, "
        "closure/associativity/commutativity of the chord-tangent addition on curve points, n*G = O, "
        "and correctness of the square root c^((p+1)/4) on squares",
        "the optimised field/group code (10x26-bit limbs, wNAF, endomorphism split, precomputed tables) is compared with the model, not proved",
        "translator tables_crypto.go (secp256k1 constants -> Gen/SecpConsts.v)",
    ],
    "assumptions": [
        "group law of y^2 = x^3 + 7 over F_p and primality of p, n are premises of verify_sign / recover_sign / ecdh_sym / negated_sig_verifies",
        "Signature.Sign is called with 0 < nonce (the only caller, secp256k1.Sign, draws 0 < nonce < n)",
    ],
}


def run(ctx):
    modeb.standard_run(ctx, SPEC)
