"""C14 — the secp256k1 implementation agrees with the curve mathematics (Mode B correspondence
with the textbook model Model/Secp.v; ECDSA algebra proved under the group-law premises)."""
import modeb

SPEC = {
    "uses_gen": ["Crypto"],
    "cmd": "c14",
    "budget": (120, 3000),
    "model_vos": ["Model/Secp.vo", "Model/SigAccept.vo"],
    "trusted_base": [
        "kernel vm_compute is trusted for two closed computations (smulx n G = Inf; acceptance of the F12 witness); coqchk is not run on this property because it has no VM",
        "premises of the ECDSA theorems (NOT proved; no elliptic-curve / primality-certificate library in the sandbox): "
        "prime p, prime n (Znumtheory.prime), padd_associative (associativity of the chord-tangent addition on curve points), "
        "sqrt_correct (c^((p+1)/4) is a square root of every square; used by recover_sign / ecdh_sym / compress_parse only). "
        "Proved, not assumed: closure, commutativity, identity/inverses, n*G = O (kernel computation + jacobian_correct), Jacobian = affine",
        "the optimised field/group code (10x26-bit limbs, wNAF, endomorphism split, precomputed tables) is compared with the model, not proved",
        "translator tables_crypto.go (secp256k1 constants -> Gen/SecpConsts.v)",
    ],
    "assumptions": [
        "prime p, prime n, padd_associative (and sqrt_correct where decompression is involved) are premises of verify_sign / recover_sign / ecdh_sym / negated_sig_verifies",
        "Signature.Sign is called with 0 < nonce (the only caller, secp256k1.Sign, draws 0 < nonce < n)",
    ],
}


def run(ctx):
    # coqchk (no VM) cannot re-check the kernel computations these theorems rest on (n*G = O on the
    # Jacobian execution, the F12 witness: whole 256-bit scalar multiplications under lazy
    # conversion take tens of minutes while holding the build lock) — stated in the trusted base
    import os
    os.environ["VERIF_NO_COQCHK"] = "1"
    ctx.notes.append("coqchk is not run for this property: vm_compute certificates (order_G_exec / f12_accepted) are not re-checkable without the VM in reasonable time")
    modeb.standard_run(ctx, SPEC)


def replay(ctx, path):
    return modeb.replay(ctx, SPEC, path)
