"""C14 — the secp256k1 implementation agrees with the curve mathematics (Mode B correspondence
with the textbook model Model/Secp.v; ECDSA algebra proved under the group-law premises)."""
import modeb

SPEC = {
    "uses_gen": ["Crypto"],
    "cmd": "c14",
    "budget": (150, 5000),
    "model_vos": ["Model/Secp.vo", "Model/SigAccept.vo"],
    "trusted_base": [
        "premises of the ECDSA theorems (NOT proved; no elliptic-curve / primality-certificate library in the sandbox): "
        "prime p, prime n (Znumtheory.prime), padd_associative (associativity of the chord-tangent addition on curve points), "
        "sqrt_correct (c^((p+1)/4) is a square root of every square; used by recover_sign / ecdh_sym / compress_parse only). "
        "Proved, not assumed: closure, commutativity, identity/inverses, n*G = O (kernel computation + jacobian_correct), Jacobian = affine",
        "the optimised field/group code (10x26-bit limbs, wNAF, endomorphism split, precomputed tables) is compared with the model, not proved",
        "translator tables_crypto.go (secp256k1 constants -> Gen/SecpConsts.v)",
    ],
    "assumptions": [
        "prime p, prime n, padd_associative (and sqrt_correct where decompression is involved) are premises of verify_sign / recover_sign / ecdh_sym / negated_sig_verifies",
        "Signature.Sign is called with 0 < nonce (the only caller, secp256k1.Sign, draws 0 < nonce < n)",
    ],
}


def run(ctx):
    modeb.standard_run(ctx, SPEC)
