"""C14 — the secp256k1 implementation agrees with the curve mathematics (Mode B correspondence
with the textbook model Model/Secp.v; ECDSA algebra proved under the group-law premises)."""
import os

import modeb
import vf

FL_GROUPS = ["fl_norm", "fl_add", "fl_mul", "fl_neg", "fl_pred", "fl_setint", "fl_setb32", "fl_getb32", "fl_fmul", "fl_sqr"]
FL_HEADER = ("From Sky Require Import Base.Uint Model.Secp Model.FieldSpec Gen.FieldLimbs.\n"
             "Open Scope Z_scope.")


def fieldlimbs_post(ctx, cases, outs, sj, state):
    """Mode A evaluation (vm_compute in coqc) of the limb-level cases the harness put into the
    side file: Gen/FieldLimbs.v vs the observed limbs (mism_fl_*), and the limb theorems'
    decidable form on the implementation's outputs (pf_fl_*)."""
    data = sj.get("fieldlimbs_coq")
    if not data:
        vf.violation(ctx, {"broken": "the harness wrote no limb-level cases (fieldlimbs_coq)"}, False,
                     "limb-level translation validation did not run")
        return
    path = vf.cases_path(ctx.pid, ctx.seed, "limbs")
    with open(path, "w") as f:
        f.write(FL_HEADER + "\n" + data + "\n" + open(os.path.join(vf.COQ, "Corr", "C14_limbs.v")).read())
    ok, out, vals = vf.coq_eval(path)
    try:
        os.remove(path)
    except OSError:
        pass
    names = ["mism_" + g for g in FL_GROUPS] + ["pf_fl_norm", "pf_fl_neg", "pf_fl_fmul", "pf_fl_sqr"]
    if not ok or any(n not in vals for n in names):
        vf.violation(ctx, {"broken": "limb-level evaluation file did not compile (Gen/FieldLimbs.v or Corr/C14_limbs.v)",
                           "log": out[-3000:]}, False, "limb-level correspondence could not be evaluated")
        return
    allc = sj.get("cases", {})
    ctx.coverage["fieldlimbs"] = {"cases_per_function": len(allc.get("fl_norm", [])),
                                  "normalize_cases_inside_premise": vals.get("n_fl_norm_in_premise"),
                                  "mul_cases_inside_premise": vals.get("n_fl_fmul_in_premise")}
    for n in names:
        idx = [int(x) for x in vals[n].strip("[]").replace(";", " ").split()]
        if not idx:
            continue
        g = n[5:] if n.startswith("mism_") else n[3:]
        i = idx[0]
        case = dict((allc.get(g) or [{}] * (i + 1))[i]) if i < len(allc.get(g, [])) else {"index": i}
        case["group"] = g
        what = ("regenerated Gen/FieldLimbs.v and the implementation differ" if n.startswith("mism_")
                else "limb-level theorem fails on the implementation's output")
        vf.violation(ctx, {"group": g, "case": case, "failing_indices": idx[:20], "check": n}, n.startswith("pf_"),
                     "%s: %s %s" % (what, case.get("fn", g), {k: case[k] for k in case if k in ("limbs", "limbs2", "a", "m", "bytes", "observed", "kind")}),
                     "-%s%d" % (g, i))
        state["found"] = True

def judge(c, m, byid, outs):
    flat = c["flat"]
    if flat.get("concurrent_equal") == "no":
        return ("property", "a call gives a different answer when other goroutines are inside the library: %s: sequential %s, concurrent %s"
                % (str(flat.get("call"))[:200], flat.get("sequential"), flat.get("concurrent")))
    if m != c["observed"]:
        return ("property", "model %r, implementation %r" % (m, c["observed"]))
    return None


SPEC = {
    "judge": judge,
    "uses_gen": ["Crypto", "FieldLimbs"],
    "post": fieldlimbs_post,
    "cmd": "c14",
    "budget": (120, 3000),
    "model_vos": ["Model/Secp.vo", "Model/SigAccept.vo"],
    "trusted_base": [
        "kernel vm_compute is trusted for two closed computations (smulx n G = Inf; acceptance of the F12 witness); coqchk is not run on this property because it has no VM",
        "premises of the ECDSA theorems (NOT proved; no elliptic-curve / primality-certificate library in the sandbox): "
        "prime p, prime n (Znumtheory.prime), padd_associative (associativity of the chord-tangent addition on curve points), "
        "sqrt_correct (c^((p+1)/4) is a square root of every square; used by recover_sign / ecdh_sym / compress_parse only). "
        "Proved, not assumed: closure, commutativity, identity/inverses, n*G = O (kernel computation + jacobian_correct), Jacobian = affine",
        "field layer: Field.Normalize / SetAdd / MulInt / Negate / IsOdd / IsZero / Equals / SetInt / SetB32 / GetB32 / Mul / Sqr (10x26-bit limbs) are TRANSLATED on this run by /verif/translator (stage4.go -> Gen/FieldLimbs.v: a Field is its ten limbs, a modified pointer receiver is returned, `for c != 0` is a fuelled loop whose exhaustion is Panic, constant-bound loops are unrolled), validated on this run against the real methods on generated limb tuples (limbs read / written through unsafe.Pointer), and PROVED to implement arithmetic modulo p (C14_Normalize_correct .. C14_Equals_correct, C14_SetB32_correct / C14_GetB32_correct and round trips; C14_Mul_correct / C14_Sqr_correct for magnitude <= 8; Proofs/FieldLimbs.v, Proofs/FieldBytes.v, Proofs/FieldMul.v)",
        "still compared with the model only, not proved: Field.Inv / Sqrt / InvVar, the group code on top (Jacobian formulas in limb form, wNAF, endomorphism split, precomputed tables), and that the group code keeps every Field within the magnitude premises of the limb theorems",
        "translator tables_crypto.go (secp256k1 constants -> Gen/SecpConsts.v)",
    ],
    "assumptions": [
        "prime p, prime n, padd_associative (and sqrt_correct where decompression is involved) are premises of verify_sign / recover_sign / ecdh_sym / negated_sig_verifies",
        "Signature.Sign is called with 0 < nonce (the only caller, secp256k1.Sign, draws 0 < nonce < n)",
    ],
}


def run(ctx):
    # coqchk (no VM) cannot re-check the kernel computations these theorems rest on (n*G = O on the
    # Jacobian execution, the F12 witness: whole 256-bit scalar multiplications under lazy
    # conversion take tens of minutes while holding the build lock) — stated in the trusted base
    import os
    os.environ["VERIF_NO_COQCHK"] = "1"
    ctx.notes.append("coqchk is not run for this property: vm_compute certificates (order_G_exec / f12_accepted) are not re-checkable without the VM in reasonable time")
    modeb.standard_run(ctx, SPEC)


def replay(ctx, path):
    return modeb.replay(ctx, SPEC, path)
