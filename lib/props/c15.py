"""C15 — base58 and address encodings are exact and canonical (specification-level
model proved canonical; compared with base58.Encode/Decode and the address
functions exhaustively on short inputs and on structured random inputs)."""
import vf

ALPHABET = "123456789ABCDEFGHJKLMNPQRSTUVWXYZabcdefghijkmnopqrstuvwxyz"
DEC_SYMS = [c.encode() for c in ALPHABET] + [b"0", b"O", b"I", b"l", b" ", b"\x80", "é".encode()]
BYTE_SYMS = [bytes([i]) for i in range(256)]


def nth_word(syms, i):
    """i-th word in the order of Model/Base58.v words_upto (shorter first)."""
    n, k = len(syms), 0
    while i >= n ** k:
        i -= n ** k
        k += 1
    out = []
    for _ in range(k):
        out.append(syms[i % n])
        i //= n
    return b"".join(reversed(out))


def case_of(sj, group, i):
    if group == "encx":
        w = nth_word(BYTE_SYMS, i)
        return {"call": "base58.Encode", "bytes_hex": w.hex(), "index": i}
    if group == "decx":
        w = nth_word(DEC_SYMS, i)
        return {"call": "base58.Decode", "text_hex": w.hex(), "text": w.decode("utf-8", "replace"), "index": i}
    cs = sj.get("cases", {}).get(group, [])
    return cs[i] if i < len(cs) else {"index": i}


SPEC = {
    "cmd": "c15",
    "budget": (150, 4000),
    "header": "From Sky Require Import Base.Uint Model.Base58.\nOpen Scope Z_scope.",
    "corr": "C15_corr.v",
    "prop": "C15_prop.v",
    "groups": {
        "encx": ("mism_encx", "pf_encx"),
        "decx": ("mism_decx", "pf_decx"),
        "enc": ("mism_enc", "pf_enc"),
        "dec": ("mism_dec", "pf_dec"),
        "addr": ("mism_addr", "pf_addr"),
        "addrb": ("mism_addrb", "pf_addrb"),
        "btc": ("mism_btc", "pf_btc"),
        "btcb": ("mism_btcb", "pf_btcb"),
        "addre": ("mism_addre", None),
        "api": ("mism_api", "pf_api"),
    },
    "must_be_true": ("alphabet_ok", "encx_len_ok", "decx_len_ok"),
    "case_of": case_of,
    "trusted_base": [
        "Model/Base58.v (hand-written specification: recode between bases 256 and 58 keeping one zero digit per leading zero; address = key ‖ version ‖ first 4 digest bytes), compared on this run with base58.Encode/Decode, cipher.DecodeBase58Address, AddressFromBytes, Address.String/Bytes: exhaustively on all byte strings of length <= 1 (thorough: 2) and all texts of <= 2 (thorough: 3) symbols over alphabet+{0,O,I,l,space,0x80,é}, and on structured random inputs",
        "HTTP API: the real handlers behind api.newServerMux (verif export VerifNewServerMux of C27) with a stub gateway; accepted = 200 or the handler goes on to call the gateway, rejected = 400/422; list parameters are split at commas / Unicode white space by the harness (the documented list syntax) and every token is judged by the model; wallet endpoints and the CLI are not driven",
        "the alphabet in the model is compared on every run with the one read off the implementation (Encode of the single bytes 0..57)",
        "SHA-256 is an oracle: the theorems take any function returning >= 4 bytes; the harness supplies cipher.SumSHA256 digests as data (payload chosen by an independent math/big base58 decoder)",
        "text is modelled as bytes: a Go string decodes only if all its runes are ASCII, where runes = bytes (bytes >= 0x80 and multi-byte runes are in the exhaustive and random malformed streams)",
        "harness printer of inputs/outputs as Coq terms; error identity = sentinel variable",
    ],
    "notes_history": "every input is presented twice in a row and once more at the end of the run; an answer that differs from the first is a further case compared with the (pure) model",
    "assumptions": ["bytes are 0..255 (Go type system)"],
}


def run(ctx):
    vf.standard_run(ctx, SPEC)
