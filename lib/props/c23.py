"""C23 — outgoing peer messages always fit the size limit and hold the longest fitting prefix
(hand model Model/Truncate.v of the truncate* size loops; correspondence with the real
constructors, EncodeMessage length and sendMessage's length test)."""
import vf

SPEC = {
    "uses_gen": ["MsgTruncate"],
    "gen_header": "From Sky Require Import Gen.MsgTruncate.",
    # group gen evaluates the regenerated unit on the cases of group msg
    "case_of": lambda sj, g, i: (sj.get("cases", {}).get("msg" if g == "gen" else g, []) + [{"index": i}] * (i + 1))[i],
    "precompile_data": True,
    "cmd": "c23",
    "budget": (6, 300),
    "header": "From Sky Require Import Base.Uint Model.Truncate.\nFrom Coq Require Import List.\nImport ListNotations.\nOpen Scope Z_scope.",
    "corr": "C23_corr.v",
    "prop": "C23_prop.v",
    "groups": {
        "msg": ("mism_msg", "pf_msg"),
        "site": ("mism_site", "pf_site"),
        "gen": ("mism_gen", None),
    },
    "trusted_base": [
        "model Model/Truncate.v: its truncate_loop / truncate_hashes are PROVED equal (C23_*_is_translated, Proofs/TruncateRefine.v) to Gen/MsgTruncate.v, regenerated on this run by /verif/translator (stage3.go) from truncateGivePeers/GiveBlocks/GiveTxnsMessage, truncateAnnounceTxnsHashes / truncateGetTxnsHashes / truncateSHA256Slice, and the regenerated unit is compared on this run with the implementation (group gen); still hand-written and compared only: the item caps of the New*Message constructors (512/128/256), encoded_len / send_refused (gnet.EncodeMessage, sendMessage)",
        "conventions of the regenerated unit (translator trusted for them; each visible at the top of Gen/MsgTruncate.v): m.EncodeSize() of a message = EncodeSize() of the empty message (parameter emptySize, 4) + the uint64 sum of the item sizes returned by encodeSizeIPAddr / encodeSizeSignedBlock / encodeSizeTransaction — the structure of the generated encodeSize*Message functions, checked on every case through the real encoded length (12 + sum of the kept sizes); a slice of hashes is represented by its length (capacity = length); a truncate function is summarised by the number of items it keeps; logger.Panic is Panic",
        "item sizes are data taken from the generated encodeSize functions (codecs are the subject of C21); the wire header 4+4 bytes is checked through the real EncodeMessage length on every case",
        "call sites: the real process methods of GetBlocks/GetTxns/AnnounceTxns/GiveTxnsMessage run on a recording daemoner, and Daemon.BroadcastTransaction / broadcastBlock / sendRandomPeers / announceTxnHashes run on a real Daemon (real pex, connections, gnet pool offline) with MaxIncomingMessageLength != MaxOutgoingMessageLength; what reaches sendMessage / broadcastMessage / the connections' write queues is measured against MaxOutgoingMessageLength",
        "harness printer of inputs/outputs as Coq terms",
    ],
    "assumptions": [
        "item sizes are non-negative and a whole message is smaller than 2^64 bytes (sizes_ok; implied by the maxlen tags and item limits)",
        "maxMsgLength >= 12 (wire header + empty body); below that no message of these types can be sent at all and the helpers log.Panic below 8",
        "NewGivePeersMessage: peers whose address does not parse are skipped before truncation; the generated lists hold valid addresses only",
    ],
}


def run(ctx):
    vf.standard_run(ctx, SPEC)


def replay(ctx, path):
    """Re-run the stored case: the harness is deterministic in (seed, tier), so the
    generation is repeated with the seed / tier recorded in the replay file and
    evaluated again (the failing case reappears at the same index)."""
    import json
    d = json.load(open(path))
    ctx.seed = int(d.get("seed", ctx.seed))
    ctx.tier = d.get("tier", ctx.tier)
    run(ctx)
    return vf.finish(ctx)
