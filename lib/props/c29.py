"""C29 — transaction paging partitions the result list (translator tie on
NewPageIndex / PageIndex.Cal + Pagination observed through a verif export)."""
import vf

SPEC = {
    "uses_gen": ["Page"],
    "cmd": "c29",
    "budget": (300, 6000),
    "header": "From Sky Require Import Base.Uint Model.Paging.\nOpen Scope Z_scope.",
    "gen_header": "From Sky Require Import Gen.Page.",
    "corr": "C29_corr.v",
    "prop": "C29_prop.v",
    "groups": {
        "cal": ("mism_cal", "pf_cal"),
        "calraw": ("mism_calraw", None),
        "page": ("mism_page", "pf_page"),
        "partition": (None, "pf_partition"),
    },
    "trusted_base": [
        "translator /verif/translator (Go->Gallina for visor.NewPageIndex, PageIndex.Cal), validated on this run against the implementation on the generated requests (also with sizes outside 1..100 through the verif export VerifPageIndex)",
        "Model/Paging.v `page`: Pagination = items[start:end] of Cal's result (hand-written, 6 lines), compared on this run with the real txnHashesContainer.Pagination through src/visor/verif_c29.go",
        "a Go slice has fewer than 2^63 elements (len is an int)",
        "harness printer of inputs/outputs as Coq terms; error identity = sentinel variable",
    ],
    "assumptions": [
        "list length < 2^63 (Go int); page size and page number are uint64",
        "the sorted, de-duplicated result list handed to Pagination is the same for every page request (ordering/filtering is the subject of C07); Visor.GetTransactions and the HTTP handler are not driven by this check, only NewPageIndex/Cal/Pagination which they call",
    ],
}


def run(ctx):
    vf.standard_run(ctx, SPEC)
