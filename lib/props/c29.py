"""C29 — transaction paging partitions the result list (translator tie on
NewPageIndex / PageIndex.Cal + Pagination observed through a verif export)."""
import vf

SPEC = {
    "uses_gen": ["Page"],
    "cmd": "c29",
    "budget": (300, 6000),
    "header": "From Sky Require Import Base.Uint Model.Paging.\nOpen Scope Z_scope.",
    "gen_header": "From Sky Require Import Gen.Page.",
    "corr": "C29_corr.v",
    "prop": "C29_prop.v",
    "groups": {
        "cal": ("mism_cal", "pf_cal"),
        "calraw": ("mism_calraw", None),
        "page": ("mism_page", "pf_page"),
        "partition": (None, "pf_partition"),
        "query": ("mism_query", "pf_query"),
        "qorder": (None, "pf_qorder"),
        "apipage": ("mism_apipage", "pf_apipage"),
    },
    "trusted_base": [
        "translator /verif/translator (Go->Gallina for visor.NewPageIndex, PageIndex.Cal), validated on this run against the implementation on the generated requests (also with sizes outside 1..100 through the verif export VerifPageIndex)",
        "Model/Paging.v `page`: Pagination = items[start:end] of Cal's result (hand-written, 6 lines), compared on this run with the real txnHashesContainer.Pagination through src/visor/verif_c29.go",
        "Visor.GetTransactions (transactionModel and its confirmed / unconfirmed / full getters) is driven on a real node built by harness/nodekit (publisher visor on a bolt file, blocks made through the C05 hook VerifCreateBlock, unconfirmed pool filled by InjectForeignTransaction); each paged answer is compared with the unpaged answer of the same query",
        "GET /api/v2/transactions is driven through the real handler behind api.newServerMux (C27 verif export) with a gateway stub that records the PageIndex it is handed: page / limit texts (64-bit boundaries, 2^32 neighbourhood, signs, junk) must give 200 with exactly (limit, page) passed on iff page >= 1 fits uint64 and 1 <= limit <= 100, else 400",
        "a Go slice has fewer than 2^63 elements (len is an int)",
        "harness printer of inputs/outputs as Coq terms; error identity = sentinel variable",
    ],
    "assumptions": [
        "list length < 2^63 (Go int); page size and page number are uint64",
        "which transactions a query selects is the subject of C07; here the unpaged answer of the query is the reference list (checked ordered by block seq / hash), the HTTP handler's parameter decoding is driven with a stub gateway, not end to end with a node",
    ],
}


def run(ctx):
    vf.standard_run(ctx, SPEC)
