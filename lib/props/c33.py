"""C33 — nodes syncing from peers converge on the publisher's chain.
Coq model Model/Sync.v (mirror of GiveBlocksMessage.process) + theorems for all
schedules; tie: real follower visor + real daemon process methods (hook
src/daemon/verif_c33.go) on exhaustive / random schedules."""
import vf

SPEC = {
    "uses_gen": False,
    "cmd": "c33",
    "budget": (150, 3000),
    "header": "From Sky Require Import Base.Uint Model.Sync.\nFrom Coq Require Import List.\nImport ListNotations.\nOpen Scope Z_scope.",
    "corr": "C33_corr.v",
    "prop": "C33_prop.v",
    "groups": {
        "sync": ("mism_sync", "pf_sync"),
        "loop": ("mism_loop", "pf_loop"),
    },
    "side_keys": ["f1_accepts_prevhash_variant"],
    "trusted_base": [
        "hand-written model Model/Sync.v of daemon.GiveBlocksMessage.process / visor.ExecuteSignedBlock as seen by the sync layer, compared on every run with the real follower visor driven by the real process methods (heads, replies, blocks held)",
        "add-only hook /repo/src/daemon/verif_c33.go (tag verif): recording daemoner around a real visor",
        "block kinds (genuine / bad signature / swapped body / re-signed PrevHash variant / genuine header+signature with a different body valid against the unspent set / genuine block signed by another key), each also delivered after the genuine block was seen and rejected out of order as produced by the harness; whether the tree accepts the PrevHash variant (F1, owned by C04) is probed on every run and passed to the model as f1",
        "harness printer of schedules / traces as Coq terms; publisher chain built by the real publisher visor (CreateBlockFromTxns + signature)",
    ],
    "assumptions": ["a block is the publisher's block k iff its header hash and body hash equal those of the publisher's block k (SHA-256 collision freedom)",
                    "what a node accepts from a message does not depend on its own request count / response cap (followers run with 20/20 and with 2-3/4-5; single messages up to 23 blocks with known blocks in front)",
                    "acceptance depends on consensus rules only, not on the follower's block-creation / pool policy (publisher with 1 MB limits producing ~35 KB blocks; followers with default, stricter and larger policies)",
                    "GiveBlocks messages are processed one at a time (the daemon processes message events on one goroutine)"],
}


def run(ctx):
    vf.standard_run(ctx, SPEC)
