#!/usr/bin/env python3
"""Regenerate DESIGN.md section 14 (seeded changes) from seeded/*/meta.json.
The section is the text between the marker lines <!-- S14 begin --> and <!-- S14 end -->."""
import glob, json, os, re, collections
rows, st = [], collections.Counter()
rounds = collections.defaultdict(collections.Counter)
def _num(d):
    return int(re.match(r'S(\d+)', os.path.basename(d)).group(1))
for d in sorted(glob.glob('/verif/seeded/S*'), key=_num):
    m = json.load(open(os.path.join(d, 'meta.json')))
    res = m['check_result'].replace('|', '/').replace('\n', ' ')
    n = _num(d)
    rnd = 1 if n <= 28 else (2 if n <= 61 else (3 if n <= 94 else (4 if n <= 127 else (5 if n <= 160 else (6 if n <= 193 else 7)))))
    first = 'missed-then-fixed' if res.startswith('MISSED') else 'caught'
    rounds[rnd][first] += 1
    rows.append("| %s | %s | %s | %s |" % (m['id'], m['breaks_property'], m['needs_to_manifest'].replace('|', '/'), res))
head = """## 14. Seeded changes: which check catches which change

Seven rounds of blind seeding (round 7 was a last, smaller sample of 18 properties, unsteered; round 6 was steered towards non-default configurations, rare entry points, order/determinism, termination, error kinds, state after errors, feature interplay, integer width and units; round 5 was steered towards the glue around the anchored functions: call sites, configuration plumbing, persistence, memoisation, aliasing, error-path order, multi-step histories). Each seed was written by a fresh sub-agent that
saw only the text of one property and its own scratch worktree of /repo (nothing
from /verif), and was asked for a change that breaks the property, compiles and
passes the existing tests, with a demonstration test. I re-verified each claim
with `lib/seedverify.sh` (builds with and without the tag; the package's
existing tests pass; the demonstration fails with the change and passes
without), then ran the property's check on an isolated copy with
`lib/seedtest.sh` (`lib/scratch.sh`: copy of /repo at HEAD + patch, copy of
/verif, `VERIF_REPO` pointing at the copy; removed afterwards). None of these
changes was ever applied in /repo itself. Each kept seed is
`seeded/<id>/{patch.diff, demo_test.go, notes.md, verify.log, meta.json}`.

| round | seeds | caught by the checks as they stood | missed, check strengthened, now caught |
|-------|-------|------------------------------------|----------------------------------------|
%s

A seed reported MISSED below was missed by the check *as it stood when the seed
arrived*; in every such case the reason is recorded in the row, the check (the
generator, the model, the translator or the decidable property - never the
property text) was strengthened, the unchanged tree was re-checked on three
seeds (exit 0), and the seed re-run until it printed a VIOLATION line. Two kinds
of catch end in `no-failing-input-found`: S07/S76 (C21: the translator refuses
the changed decoder because its code no longer has the shape that is proved
equal to the struct; the failing input needs > 64 KiB) and S75 (C20: the traced
system-call shape no longer satisfies the premise of `tmp_file_not_loaded`;
the failing content is a 1-in-262144 hash).

Rounds 5 and 6 left the anchored functions alone and changed the glue. What
those misses had in common: (a) the models are PURE functions but the harnesses
called each API once on fresh values - memoisation, caches and aliasing only
show in HISTORIES, so every harness now presents inputs repeatedly and in
related pairs and judges each call alone against the model; (b) properties are
stated over configurations, entry points and node kinds, while harnesses used
one default configuration and the main entry point - configurations, rarely
used entry points, read-only calls (which must be inert) and both node kinds
are now dimensions of the generators; (c) two properties needed real
concurrency (C07 snapshot consistency of a balance query, C14 shared scratch
in ECmult): concurrent groups compare every concurrent answer with a
sequentially valid one - run-time checks, the functional models cannot see
them; (d) sampling is not regression testing: after round 5 a re-run of ALL
archived seeds (`lib/seedregress.sh`, result in `seeded/REGRESSION.txt`) showed
4 of 160 earlier seeds no longer caught because later generator changes had
shifted the random cases; every family that ever caught a seed is now
SCRIPTED as a fixed prefix of the quick tier and the regression is re-run after
each round. The rounds also found genuine defects on the unchanged tree
(section 15: share_factor hang, Field.Normalize carry, custom peers file cap,
pool Shutdown-before-Run hang and double-Shutdown panic, xpub sign panic) and
one defect of this framework: `kit.NewRng(seed+1)` produced seed's stream
shifted by one draw, so "three seeds" were nearly one; seeds other than 1 are
now scrambled (seed 1 keeps its historical stream) and every check was re-run
on the new seeds 2 and 3 (one harness hang in C11 found and fixed that way).

What the misses of rounds 1-4 had in common (and what was changed because of it): the
generators sampled the *valid* region well and the error region shallowly
around constants that live in the code (retry limits, length bounds, high-s
boundary, limb boundaries, Latin-1 vs ASCII). Each harness now has a
"threshold family": scripted cases at constant-1/constant/constant+1 for every
constant the modelled function compares against, and for stateful properties
"reject first, then replay differently" schedules.

%s
"""
rt = "\n".join("| %d | %d | %d | %d |" % (r, sum(c.values()), c['caught'], c['missed-then-fixed']) for r, c in sorted(rounds.items()))
tbl = "| seed | property | needs to manifest | result of the check |\n|------|----------|-------------------|---------------------|\n" + "\n".join(rows)
body = "<!-- S14 begin -->\n" + head % (rt, tbl) + "<!-- S14 end -->\n"
p = '/verif/DESIGN.md'
s = open(p).read()
if '<!-- S14 begin -->' in s:
    s = re.sub(r'<!-- S14 begin -->.*<!-- S14 end -->\n', lambda _: body, s, flags=re.S)
else:
    s = s.replace("## 15. Findings: final status", body + "\n---------------------------------------------------------------------------\n\n## 15. Findings: final status", 1)
open(p, 'w').write(s)
print(rt)
