"""Mode B (DESIGN.md 4.2): the executable Coq model extracted to OCaml (Z mapped to
Zarith) and run on the case lines written by the Go harness.  Used by C14, C10, C16.

  build_runner(pid)          coq Model/*.vo -> Extract/<pid>Extract.v -> ocamlfind ocamlopt -> build/mb_<pid>/<pid>_runner
  run_model(runner, cases)   feed `<id> <op> <args>` lines, answer hash-oracle queries with hashlib
  read_cases(path)           parse the harness' `<group>:<i> <op> <args> => <observed>` lines
"""
import hashlib
import hmac
import os
import re
import subprocess
import unicodedata

import vf

RUNNER_SRC = os.path.join(vf.ROOT, "runner")
GLUE = ["zr.ml", "rio.ml"]


def extract_directives():
    """The Extract directives (verbatim) — part of the trusted base of Mode B."""
    src = open(os.path.join(vf.COQ, "Extract", "SecpExtract.v")).read()
    return [l.strip() for l in src.split("\n") if re.match(r"^Extract (Inductive|Constant)\b", l)]


def trusted_base(pid):
    return [
        "Mode B execution: Coq extraction (Extraction Language OCaml, ExtrOcamlBasic), OCaml %s, Zarith 1.12, glue runner/zr.ml + runner/rio.ml + runner/%s_driver.ml"
        % (vf.sh(["ocamlfind", "ocamlopt", "-version"])[1].strip(), pid.lower()),
        "Extract directives (coq/Extract/SecpExtract.v), exercised on every run by arith_selftest (kernel-computed values vs extracted code): "
        + " | ".join(extract_directives()),
        "hash oracles answered by Python hashlib/hmac (independent of the Go code)",
    ]


def _digest(paths):
    h = hashlib.sha256()
    for p in paths:
        h.update(p.encode())
        h.update(open(p, "rb").read())
    return h.hexdigest()


def build_runner(pid, model_vos):
    """Returns (runner_path or None, log).  model_vos: .vo targets (relative to coq/) the
    extraction file needs (they are (re)built by make, so the model always reflects the sources)."""
    low = pid.lower()
    ok, mklog = vf.coq_make(list(model_vos) + ["Extract/SecpExtract.vo"])
    if not ok:
        return None, "model does not compile:\n" + vf.first_error(mklog)
    bdir = os.path.join(vf.BUILD, "mb_" + low)
    os.makedirs(bdir, exist_ok=True)
    ext_v = os.path.join(vf.COQ, "Extract", pid + "Extract.v")
    vos = [os.path.join(vf.COQ, v) for v in list(model_vos) + ["Extract/SecpExtract.vo"]]
    srcs = [os.path.join(RUNNER_SRC, f) for f in GLUE + [low + "_driver.ml"]]
    stamp = _digest(vos + [ext_v] + srcs)
    stamp_file = os.path.join(bdir, "stamp")
    runner = os.path.join(bdir, low + "_runner")
    if os.path.exists(runner) and os.path.exists(stamp_file) and open(stamp_file).read() == stamp:
        return runner, "cached"
    with vf.Lock("mb_%s.lock" % low):
        rc, out = vf.sh(["coqc"] + vf.COQFLAGS + ["-o", os.path.join(bdir, pid + "Extract.vo"), ext_v], cwd=bdir, timeout=900)
        if rc != 0:
            return None, "extraction failed:\n" + out[-3000:]
        for f in GLUE + [low + "_driver.ml"]:
            with open(os.path.join(bdir, f), "w") as g:
                g.write(open(os.path.join(RUNNER_SRC, f)).read())
        cmd = ("ulimit -s unlimited 2>/dev/null; ocamlfind ocamlopt -package zarith -linkpkg -w -a "
               "zr.ml rio.ml %s_model.mli %s_model.ml %s_driver.ml -o %s_runner" % (low, low, low, low))
        rc, out = vf.sh(cmd, cwd=bdir, timeout=900)
        if rc != 0:
            return None, "ocaml build failed:\n" + out[-3000:]
        open(stamp_file, "w").write(stamp)
    return runner, out


# ---------------------------------------------------------------- oracles (independent of Go)

def _ripemd160(data):
    try:
        return hashlib.new("ripemd160", data).digest()
    except Exception:
        raise SystemExit("python hashlib has no ripemd160")


def _hx(b):
    return b.hex() if b else "-"


def _unhx(s):
    return b"" if s in ("-", "") else bytes.fromhex(s)


ORACLES = {
    "sha256": lambda a: hashlib.sha256(a[0]).digest(),
    "sha512": lambda a: hashlib.sha512(a[0]).digest(),
    "ripemd160": lambda a: _ripemd160(a[0]),
    # cipher.PubKeyRipemd160: ripemd160(sha256(sha256(pubkey)))
    "pubkey_hash": lambda a: _ripemd160(hashlib.sha256(hashlib.sha256(a[0]).digest()).digest()),
    # bip32 identifier: ripemd160(sha256(x))
    "hash160": lambda a: _ripemd160(hashlib.sha256(a[0]).digest()),
    # Unicode NFKD of a UTF-8 string (bytes that are not valid UTF-8 pass through unchanged)
    "nfkd": lambda a: unicodedata.normalize("NFKD", a[0].decode("utf-8", "surrogateescape")).encode("utf-8", "surrogateescape"),
    "hmac_sha512": lambda a: hmac.new(a[0], a[1], hashlib.sha512).digest(),
    # BIP39 seed: PBKDF2-HMAC-SHA512(password = NFKD(mnemonic), salt = "mnemonic" + NFKD(passphrase), 2048, 64);
    # the model passes the raw UTF-8 strings, normalisation is part of the standard and done here
    "bip39_seed": lambda a: hashlib.pbkdf2_hmac(
        "sha512", unicodedata.normalize("NFKD", a[0].decode("utf-8", "surrogateescape")).encode("utf-8", "surrogateescape"),
        b"mnemonic" + unicodedata.normalize("NFKD", a[1].decode("utf-8", "surrogateescape")).encode("utf-8", "surrogateescape"),
        2048, 64),
    "pbkdf2_sha512_2048_64": lambda a: hashlib.pbkdf2_hmac("sha512", a[0], a[1], 2048, 64),
}


def run_model(runner, cases, timeout=3000):
    """cases: list of (id, 'op args') ; returns ({id: output string}, oracle_calls, error or None)."""
    p = subprocess.Popen([runner], stdin=subprocess.PIPE, stdout=subprocess.PIPE, stderr=subprocess.PIPE,
                         universal_newlines=True, bufsize=1)
    out = {}
    ncalls = 0
    try:
        for cid, body in cases:
            p.stdin.write("%s %s\n" % (cid, body))
            p.stdin.flush()
            while True:
                line = p.stdout.readline()
                if not line:
                    err = p.stderr.read()
                    return out, ncalls, "model runner died on case %s %s: %s" % (cid, body[:200], err[-500:])
                line = line.rstrip("\n")
                if line.startswith("Q "):
                    toks = line.split(" ")
                    fn = ORACLES.get(toks[1])
                    if fn is None:
                        return out, ncalls, "unknown oracle " + toks[1]
                    ncalls += 1
                    p.stdin.write(_hx(fn([_unhx(t) for t in toks[2:]])) + "\n")
                    p.stdin.flush()
                elif line.startswith("R "):
                    _, rid, *rest = line.split(" ")
                    out[rid] = " ".join(rest)
                    break
        p.stdin.write("quit\n")
        p.stdin.flush()
    except BrokenPipeError:
        return out, ncalls, "model runner closed its input: " + p.stderr.read()[-500:]
    finally:
        try:
            p.stdin.close()
            p.wait(timeout=10)
        except Exception:
            p.kill()
    return out, ncalls, None


def read_cases(path):
    """-> list of dicts {id, group, index, op, args, observed}"""
    res = []
    for line in open(path):
        line = line.rstrip("\n")
        if not line:
            continue
        left, _, obs = line.partition(" => ")
        cid, op, *args = left.split(" ")
        g, _, i = cid.partition(":")
        res.append({"id": cid, "group": g, "index": int(i), "op": op, "args": " ".join(args), "observed": obs})
    return res


# ---------------------------------------------------------------- standard Mode B flow

def standard_run(ctx, spec):
    """spec keys:
      uses_gen      regenerate Gen/*.v first
      model_vos     .vo targets needed by Extract/<pid>Extract.v
      cmd           harness command;  budget (quick, thorough)
      judge         fn(case, model_out, cases_by_id, model_outs) -> None (fine) | str (what is wrong); default: observed == model
      kind          fn(case) -> 'property' | 'correspondence'  (how a failed judgement is reported; default 'property')
      known_text    fn(case) -> flat dict matched against known findings (default: the case itself)
      trusted_base, assumptions, search_seeds, extra_args
      post          fn(ctx, cases, model_outs, side_json) -> None   extra per-round analysis (may call vf.violation / vf.known_finding)
    """
    pid = ctx.pid
    broke = []
    if spec.get("uses_gen"):
        ok, msg = vf.regen(spec["uses_gen"] if isinstance(spec["uses_gen"], (list, tuple)) else True)
        if not ok:
            broke.append(("translation", msg[-1500:]))
            ctx.notes.append("translator: " + msg[-500:])
    proof_ok, info = vf.prove(ctx)
    if not proof_ok:
        broke.append(("proof", "%s\n%s" % (info.get("lemma"), info.get("error"))))
    ctx.coverage["trusted_base"] = (ctx.coverage.get("trusted_base", list(vf.KERNEL_TB)) + trusted_base(pid)
                                    + list(spec.get("trusted_base", [])))
    ctx.assumptions += list(spec.get("assumptions", []))

    runner, blog = build_runner(pid, spec["model_vos"])
    if runner is None:
        vf.violation(ctx, {"broken": "Mode B model runner does not build", "log": blog[-3000:]}, False,
                     "the executable model could not be extracted/compiled: " + blog.split("\n")[0][:200])
        return
    ok, out = vf.build_harness(spec["cmd"])
    if not ok:
        vf.violation(ctx, {"broken": "harness build against /repo (tag verif) failed", "log": out[-3000:]}, False,
                     "correspondence harness does not build against the current tree")
        return

    st, _, err = run_model(runner, [("s", "selftest")])
    if err or st.get("s") != "1":
        vf.violation(ctx, {"broken": "arith_selftest of the extraction directives failed", "detail": err or st}, False,
                     "extracted arithmetic disagrees with the Coq kernel (Extract directives / Zarith glue)")
        return

    known = vf.load_known(pid)
    judge = spec.get("judge") or (lambda c, m, cs, ms: None if c["observed"] == m else "model %r, implementation %r" % (m, c["observed"]))
    kind = spec.get("kind") or (lambda c: "property")
    state = {"found": False}

    def one_round(seed, tier, tag):
        base = os.path.join(vf.BUILD, "cases_%s_%s%s_%d" % (pid, seed, tag, os.getpid()))
        data, side = base + ".txt", base + ".json"
        n = spec["budget"][1] if tier in ("thorough", "search") else spec["budget"][0]
        rc, hout = vf.harness(spec["cmd"], ["-seed", seed, "-tier", tier, "-n", n, "-out", data, "-json", side] + list(spec.get("extra_args", [])))
        if rc != 0:
            vf.violation(ctx, {"broken": "harness run failed", "log": hout[-3000:]}, False, "harness run failed (rc=%d)" % rc, tag)
            return None
        import json
        sj = json.load(open(side))
        cases = read_cases(data)
        outs, ncalls, err = run_model(runner, [(c["id"], c["op"] + " " + c["args"]) for c in cases])
        for f in (data, side, data + ".v"):
            try:
                os.remove(f)
            except OSError:
                pass
        if err:
            vf.violation(ctx, {"broken": "model runner failed", "detail": err}, False, "model runner failed: " + err[:200], tag)
            return None
        byid = {c["id"]: c for c in cases}
        nfail = nmis = 0
        for c in cases:
            m = outs.get(c["id"])
            grp = sj.get("cases", {}).get(c["group"], [])
            flat = dict(grp[c["index"]] if c["index"] < len(grp) else {}, group=c["group"])
            c["flat"] = flat
            why = judge(c, m, byid, outs)
            if why is None:
                continue
            k = kind(c)
            if isinstance(why, tuple):
                k, why = why
            kf = vf.match_known(known, flat)
            if kf:
                vf.known_finding(ctx, kf["what"])
                state["known_hits"] = state.get("known_hits", 0) + 1
                continue
            if k == "property":
                nfail += 1
            else:
                nmis += 1
            state["found"] = True
            short = {kk: (vv if len(str(vv)) < 400 else str(vv)[:400] + "...") for kk, vv in flat.items()}
            vf.violation(ctx, {"group": c["group"], "index": c["index"], "case": flat, "model": m, "observed": c["observed"], "why": why, "kind": k,
                               "seed": seed, "tier": tier, "n": n,
                               "replay_cmd": "echo '%s %s %s' | build/mb_%s/%s_runner   # model; the implementation's answer is in 'observed'" % (c["id"], c["op"], c["args"], pid.lower(), pid.lower())},
                         True, "%s %s: %s" % (c["group"], c["op"], why), tag + "-%s%d" % (c["group"], c["index"]))
        if spec.get("post"):
            spec["post"](ctx, cases, outs, sj, state)
        return sj, nfail, nmis, ncalls

    r = one_round(ctx.seed, ctx.tier, "")
    if r is None:
        return
    sj, nfail, nmis, ncalls = r
    ctx.coverage.update({
        "evaluations": sj.get("evaluations", 0),
        "distinct_nontrivial": sj.get("distinct_nontrivial", 0),
        "rule": sj.get("rule", ""),
        "samples": sj.get("samples", [])[:12],
        "distribution": sj.get("distribution", []),
        "traces_validated_against_impl": sj.get("evaluations", 0),
        "model_impl_mismatches": nmis,
        "property_failures_on_impl": nfail,
        "oracle_calls": ncalls,
    })
    for k in spec.get("side_keys", []):
        if k in sj:
            ctx.coverage[k] = sj[k]
    if broke and not state["found"]:
        for s in range(spec.get("search_seeds", 2)):
            rr = one_round(ctx.seed * 1000 + 17 + s, "search", "-s%d" % s)
            if rr is None or state["found"]:
                break
        ctx.coverage["search_rounds_after_break"] = s + 1
    if broke and not state["found"]:
        what = "; ".join("%s: %s" % (k, d.split("\n")[0][:200]) for k, d in broke[:4])
        vf.violation(ctx, {"no_longer_checks": [{"kind": k, "detail": d} for k, d in broke],
                           "note": "no concrete failing input was found by the search; the property is no longer shown to hold"},
                     False, what, "-broken")


def replay(ctx, spec, path):
    """./check Cxx --replay <file>: regenerate the stored case from its seed (the harness is
    deterministic), run it through the implementation and the model again, print both."""
    import json
    rp = json.load(open(path))
    if "group" not in rp or "index" not in rp:
        print("replay file holds no concrete case (%s)" % rp.get("summary", ""))
        return 1
    runner, blog = build_runner(ctx.pid, spec["model_vos"])
    ok, out = vf.build_harness(spec["cmd"])
    if runner is None or not ok:
        print("cannot build runner/harness: " + (blog if runner is None else out)[-500:])
        return 1
    base = os.path.join(vf.BUILD, "replay_%s_%d" % (ctx.pid, os.getpid()))
    rc, hout = vf.harness(spec["cmd"], ["-seed", rp["seed"], "-tier", rp["tier"], "-n", rp.get("n", spec["budget"][0]),
                                        "-out", base + ".txt", "-json", base + ".json"])
    if rc != 0:
        print("harness failed: " + hout[-500:])
        return 1
    cid = "%s:%d" % (rp["group"], rp["index"])
    cs = [c for c in read_cases(base + ".txt") if c["id"] == cid]
    for f in (base + ".txt", base + ".json", base + ".txt.v"):
        try:
            os.remove(f)
        except OSError:
            pass
    if not cs:
        print("case %s not regenerated (seed %s tier %s)" % (cid, rp["seed"], rp["tier"]))
        return 1
    c = cs[0]
    outs, _, err = run_model(runner, [(c["id"], c["op"] + " " + c["args"])])
    print("case           : %s %s %s" % (c["id"], c["op"], c["args"]))
    print("implementation : %s" % c["observed"])
    print("model          : %s" % (outs.get(c["id"]) if not err else err))
    print("recorded       : implementation %s | model %s" % (rp.get("observed"), rp.get("model")))
    return 0 if outs.get(c["id"]) == c["observed"] else 1
