#!/bin/bash
# setup_cmd: build the framework from files on disk only (offline).
set -e
cd "$(dirname "$0")/.."
export GOFLAGS=-mod=mod GOPROXY=off GOSUMDB=off GOTOOLCHAIN=local
mkdir -p build evidence coq/Cases
bash lib/gate.sh
(cd translator && go build -o ../build/translator .)
./build/translator -repo /repo -out coq/Gen -manifest build/gen_manifest.json || echo "setup: translator reported a break (checks will report it)"
(cd coq && coq_makefile -f _CoqProject -o Makefile >/dev/null && timeout 3000 make -j16 >build.log 2>&1 || { tail -30 build.log; echo "setup: coq build failed (checks will report it)"; })
cp /repo/go.sum harness/go.sum
(cd harness && for d in c*/; do d=${d%/}; go build -tags verif -o ../build/harness_$d ./$d || echo "setup: harness $d build failed (its check will report it)"; done)
echo setup done
