#!/bin/bash
# lib/seedverify.sh <name> <outdir> <demo package dir (relative to repo)> "<test packages>" [demo run regex]
# Independent confirmation of a seeded change in a fresh worktree of /repo HEAD:
# build, existing tests of the given packages with the change, demo fails with it
# and passes without it. Writes <outdir>/verify.log and prints a summary line.
name=$1; out=$2; pkg=$3; tests=$4; rx=${5:-.}
export GOFLAGS=-mod=mod GOPROXY=off GOSUMDB=off GOTOOLCHAIN=local
wt=/tmp/sv_$name
git -C /repo worktree add --detach $wt HEAD >/dev/null 2>&1 || { echo "worktree failed"; exit 2; }
cd $wt
{
echo "== apply"; git apply $out/patch.diff && echo applied
echo "== build"; go build ./... && echo BUILD_OK
echo "== existing tests with the change"; go test -vet=off -count=1 -skip 'TestErrMissingSignatureRecreateDB|TestServiceNewAddresses|TestIsWritable' $tests 2>&1 | grep -E "^(ok|FAIL|---)" ; 
cp $out/demo_test.go $pkg/zz_demo_test.go
echo "== demo WITH change (expect FAIL)"; go test -vet=off -count=1 -run "$rx" ./$pkg/ 2>&1 | grep -E "^(ok|FAIL|--- FAIL|--- PASS)" | head -8
git apply -R $out/patch.diff
echo "== demo WITHOUT change (expect ok)"; go test -vet=off -count=1 -run "$rx" ./$pkg/ 2>&1 | grep -E "^(ok|FAIL|--- FAIL)" | head -8
} > $out/verify.log 2>&1
cd /; git -C /repo worktree remove --force $wt
b=$(grep -c BUILD_OK $out/verify.log); 
w=$(sed -n '/== demo WITH/,/== demo WITHOUT/p' $out/verify.log | grep -c "^FAIL")
wo=$(sed -n '/== demo WITHOUT/,$p' $out/verify.log | grep -c "^ok")
tf=$(sed -n '/== existing tests/,/== demo WITH/p' $out/verify.log | grep -c "^FAIL")
echo "$name build_ok=$b existing_test_failures=$tf demo_fails_with=$w demo_passes_without=$wo"
