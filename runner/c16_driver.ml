(* runner/c16_driver.ml — BIP39 / BIP32 / BIP44 model (Model/Bip.v) on the cases written by
   harness/c16 (property C16).  All hash functions are oracles answered by the Python driver. *)
type ostring = string
open C16_model
open Rio
(* the extracted code defines Coq's [string]; give the name back to OCaml's *)
type string = ostring

let b2s b = if b then "1" else "0"
let sha256 x = oracle "sha256" [ x ]
let hmac_sha512 k d = oracle "hmac_sha512" [ k; d ]
let hash160 x = oracle "hash160" [ x ]
let nfkd x = oracle "nfkd" [ x ]
let pbkdf2 pw salt = oracle "pbkdf2_sha512_2048_64" [ pw; salt ]

let e39 = function
  | ErrInvalidEntropyLength -> "ErrInvalidEntropyLength"
  | ErrChecksumIncorrect -> "ErrChecksumIncorrect"
  | ErrSurroundingWhitespace -> "ErrSurroundingWhitespace"
  | ErrInvalidSeparator -> "ErrInvalidSeparator"
  | ErrUnknownWord -> "ErrUnknownWord"
  | ErrInvalidNumberOfWords -> "ErrInvalidNumberOfWords"

let e32 = function
  | ErrInvalidSeedLength -> "ErrInvalidSeedLength"
  | ErrDerivedInvalidPrivateKey -> "ErrDerivedInvalidPrivateKey"
  | ErrImpossibleChild -> "ErrImpossibleChild"
  | ErrHardenedChildPublicKey -> "ErrHardenedChildPublicKey"
  | ErrMaxDepthReached -> "ErrMaxDepthReached"
  | ErrSerializedKeyWrongSize -> "ErrSerializedKeyWrongSize"
  | ErrInvalidChecksum -> "ErrInvalidChecksum"
  | ErrInvalidKeyVersion -> "ErrInvalidKeyVersion"
  | ErrInvalidPrivateKeyVersion -> "ErrInvalidPrivateKeyVersion"
  | ErrInvalidPublicKeyVersion -> "ErrInvalidPublicKeyVersion"
  | ErrInvalidFingerprint -> "ErrInvalidFingerprint"
  | ErrInvalidChildNumber -> "ErrInvalidChildNumber"
  | ErrInvalidPrivateKey -> "ErrInvalidPrivateKey"
  | ErrInvalidPublicKey -> "ErrInvalidPublicKey"
  | ErrPathNoMaster -> "ErrPathNoMaster"
  | ErrPathChildMaster -> "ErrPathChildMaster"
  | ErrPathNodeNotNumber -> "ErrPathNodeNotNumber"
  | ErrPathNodeNumberTooLarge -> "ErrPathNodeNumberTooLarge"
  | ErrPathEmptySubpath -> "ErrPathEmptySubpath"
  | ErrInvalidCoinType -> "ErrInvalidCoinType"
  | ErrInvalidAccount -> "ErrInvalidAccount"

let r39 = function Inl e -> e39 e | Inr bs -> hex_of_bytes bs
let ser k = hex_of_bytes (serialize sha256 k)
let r32 = function Inl e -> e32 e | Inr k -> ser k
let deser priv h = deserialize sha256 priv (bytes_of_hex h)

let handler (op : string) (args : string list) : string =
  match op, args with
  | "selftest", [] -> b2s (arith_selftest_expected = arith_selftest_actual ())
  | "nop", _ -> "-"
  | "nwords", [] -> string_of_int (List.length english_words)
  | "newmn", [ e ] -> r39 (new_mnemonic sha256 english_words (bytes_of_hex e))
  | "entmn", [ m ] -> r39 (entropy_from_mnemonic sha256 english_words (bytes_of_hex m))
  | "valmn", [ m ] -> (match validate_mnemonic sha256 english_words (bytes_of_hex m) with None -> "ok" | Some e -> e39 e)
  | "seed", [ m; p ] -> r39 (new_seed sha256 english_words nfkd pbkdf2 (bytes_of_hex m) (bytes_of_hex p))
  | "master", [ s ] -> r32 (master_key hmac_sha512 (bytes_of_hex s))
  | "ckdpriv", [ k; i ] -> (
      match deser true k with Inl e -> "bad-input:" ^ e32 e | Inr xk -> r32 (ckd_priv hmac_sha512 hash160 xk (num_of_hex i)))
  | "ckdprivpub", [ k; i ] -> (
      (* PrivateKey.NewPublicChildKey = N(CKDpriv(k, i)), hardened indices included *)
      match deser true k with
      | Inl e -> "bad-input:" ^ e32 e
      | Inr xk -> (
          match ckd_priv hmac_sha512 hash160 xk (num_of_hex i) with
          | Inl e -> e32 e
          | Inr c -> (match neuter c with Some p -> ser p | None -> "none")))
  | "ckdpub", [ k; i ] -> (
      match deser false k with Inl e -> "bad-input:" ^ e32 e | Inr xk -> r32 (ckd_pub hmac_sha512 hash160 xk (num_of_hex i)))
  | "neuter", [ k ] -> (
      match deser true k with
      | Inl e -> "bad-input:" ^ e32 e
      | Inr xk -> (match neuter xk with Some p -> ser p | None -> "none"))
  | "deser", [ w; d ] -> (
      match deser (w = "priv") d with
      | Inl e -> e32 e
      | Inr xk -> "ok " ^ ser xk)
  | "path", [ p ] -> (
      match parse_path (bytes_of_hex p) with
      | Inl e -> e32 e
      | Inr vs -> "m" ^ String.concat "" (List.map (fun v -> "/" ^ Zr.to_dec v) vs))
  | "pathrt", vs ->
      (* model self-consistency: parsing the canonical text of a path gives the path *)
      let nums = List.map num_of_hex vs in
      (match parse_path (print_path nums) with Inr vs' when vs' = nums -> "1" | _ -> "0")
  | "frompath", [ s; p ] -> r32 (private_key_from_path hmac_sha512 hash160 (bytes_of_hex s) (bytes_of_hex p))
  | "frompathpub", [ s; p ] -> (
      match private_key_from_path hmac_sha512 hash160 (bytes_of_hex s) (bytes_of_hex p) with
      | Inl e -> e32 e
      | Inr k -> (match neuter k with Some pk -> ser pk | None -> "none"))
  | "bip44", [ s; coin; account ] -> (
      match bip44_coin hmac_sha512 hash160 (bytes_of_hex s) (num_of_hex coin) with
      | Inl e -> "coin:" ^ e32 e
      | Inr c -> (
          match bip44_account hmac_sha512 hash160 c (num_of_hex account) with
          | Inl e -> ser c ^ " account:" ^ e32 e
          | Inr a ->
              String.concat " "
                [ ser c; ser a; r32 (bip44_external hmac_sha512 hash160 a); r32 (bip44_change hmac_sha512 hash160 a) ]))
  | _ -> failwith ("unknown op " ^ op)

let () = main handler
