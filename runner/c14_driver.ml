(* runner/c14_driver.ml — runs the extracted model of Model/Secp.v on the cases
   written by harness/c14 (property C14). *)
open C14_model
open Rio

let rec nat_of_int (i : int) : nat = if i <= 0 then O else S (nat_of_int (i - 1))
let b2s b = if b then "1" else "0"
let optbytes = function Some bs -> hex_of_bytes bs | None -> "nil"
let sha256 (x : Zr.t list) : Zr.t list = oracle "sha256" [ x ]

let verdict = function
  | SigOK -> "ok"
  | ErrInvalidSigPubKeyRecovery -> "ErrInvalidSigPubKeyRecovery"
  | ErrPubKeyRecoverMismatch -> "ErrPubKeyRecoverMismatch"
  | ErrInvalidAddressForSig -> "ErrInvalidAddressForSig"
  | ErrInvalidSigValidity -> "ErrInvalidSigValidity"
  | ErrInvalidHashForSig -> "ErrInvalidHashForSig"
  | ErrInvalidSigForMessage -> "ErrInvalidSigForMessage"

let handler (op : string) (args : string list) : string =
  match op, args with
  | "selftest", [] -> b2s (arith_selftest_expected = arith_selftest_actual ())
  | "nop", _ -> "-"
  | "consts", [] -> String.concat " " [ hex_of_num n; hex_of_num p; hex_of_num halfOrder ]
  | "seckey", [ k ] ->
      let c = Zr.to_dec (seckey_code (num_of_hex k)) in
      c ^ (if c = "1" then " ok" else " ErrInvalidSecKey")
  | "pubkey", [ k ] -> (match pubkey_of_seckey (num_of_hex k) with Some b -> hex_of_bytes b | None -> "rej")
  | "sign", [ k; m; nonce ] -> (
      match sign (num_of_hex k) (num_of_hex m) (num_of_hex nonce) with
      | Some ((r, s), v) -> String.concat " " [ "1"; hex_of_num r; hex_of_num s; hex_of_num v ]
      | None -> "0")
  | "verify", [ pk; m; r; s ] -> (
      match parse_pubkey (bytes_of_hex pk) with
      | Inl q -> b2s (ecdsa_verify q (num_of_hex m) (num_of_hex r) (num_of_hex s))
      | Inr _ -> "badpk")
  | "vsig", [ msg; sg; pk ] -> b2s (verify_signature (bytes_of_hex msg) (bytes_of_hex sg) (bytes_of_hex pk))
  | "recover", [ msg; sg ] -> (
      let sgb = bytes_of_hex sg in
      match recover (num_of_hex msg) (sig_r sgb) (sig_s sgb) (sig_recid sgb) with
      | Inl q -> "1 " ^ optbytes (compress q)
      | Inr c -> Zr.to_dec c ^ " nil")
  | "vpsh", [ pk; sg; h ] -> verdict (verify_pubkey_signed_hash (bytes_of_hex pk) (bytes_of_hex sg) (bytes_of_hex h))
  | "newpk", [ b ] -> (
      match new_pubkey (bytes_of_hex b) with
      | PubKeyOK -> "ok"
      | ErrInvalidLengthPubKey -> "ErrInvalidLengthPubKey"
      | ErrInvalidPubKey -> "ErrInvalidPubKey")
  | "pkcode", [ b ] -> Zr.to_dec (pubkey_code (bytes_of_hex b))
  | "ecdh", [ pk; k ] -> optbytes (ecdh (bytes_of_hex pk) (num_of_hex k))
  | "detkeys", [ seed; cnt ] -> (
      match det_keypairs sha256 (nat_of_int (int_of_hex cnt)) (bytes_of_hex seed) with
      | None -> "fail"
      | Some (sd, ks) ->
          String.concat " " (hex_of_bytes sd :: List.concat_map (fun (pk, sk) -> [ hex_of_bytes pk; hex_of_bytes sk ]) ks))
  | "affine", [ k; pk ] -> (
      (* model self-consistency: affine double-and-add = Jacobian execution *)
      match parse_pubkey (bytes_of_hex pk) with
      | Inl q -> b2s (point_eqb (smul (num_of_hex k) q) (smulx (num_of_hex k) q))
      | Inr _ -> "badpk")
  | _ -> failwith ("unknown op " ^ op)

let () = main handler
