(* runner/rio.ml — case-file I/O shared by the Mode B drivers (TRUSTED glue).
   Protocol (stdin/stdout, one line each):
     in :  <id> <op> <arg> ...          args: hex numbers / hex byte strings ("-" = empty)
     out:  R <id> <token> ...           the model's observable for that case
           Q <oracle> <hex> ...         a hash-oracle query; the answer (hex) is read from stdin
   The oracles (sha256, hmac-sha512, ...) are answered by the Python driver with
   hashlib, an implementation independent of the Go code under test. *)

let num_of_hex (s : string) : Zr.t = if s = "-" then Zr.z0 else Zr.of_hex s
let hex_of_num (z : Zr.t) : string = Zr.to_hex z

let bytes_of_hex (s : string) : Zr.t list =
  if s = "-" || s = "" then []
  else begin
    let n = String.length s / 2 in
    if String.length s mod 2 <> 0 then failwith "odd hex length";
    List.init n (fun i -> Zr.of_int (int_of_string ("0x" ^ String.sub s (2 * i) 2)))
  end

let hex_of_bytes (bs : Zr.t list) : string =
  if bs = [] then "-"
  else String.concat "" (List.map (fun b -> Printf.sprintf "%02x" (Zr.to_int b)) bs)

let int_of_hex (s : string) : int = int_of_string ("0x" ^ s)

let oracle (name : string) (args : Zr.t list list) : Zr.t list =
  print_string ("Q " ^ name);
  List.iter (fun a -> print_string (" " ^ hex_of_bytes a)) args;
  print_newline ();
  flush stdout;
  bytes_of_hex (String.trim (input_line stdin))

let split (s : string) : string list =
  List.filter (fun x -> x <> "") (String.split_on_char ' ' (String.trim s))

let main (handler : string -> string list -> string) : unit =
  try
    while true do
      let line = input_line stdin in
      match split line with
      | [] -> ()
      | [ "quit" ] -> raise End_of_file
      | id :: op :: args ->
          let out =
            try handler op args
            with
            | End_of_file -> raise End_of_file
            | e -> "EXC:" ^ String.map (fun c -> if c = ' ' then '_' else c) (Printexc.to_string e)
          in
          print_string ("R " ^ id ^ " " ^ out);
          print_newline ();
          flush stdout
      | _ -> failwith ("bad line: " ^ line)
    done
  with End_of_file -> ()
