(* runner/c10_driver.ml — signature acceptance predicates of Model/SigAccept.v on the
   cases written by harness/c10 (property C10). *)
open C10_model
open Rio

let b2s b = if b then "1" else "0"
let pubkey_hash (pk : Zr.t list) : Zr.t list = oracle "pubkey_hash" [ pk ]

let verdict = function
  | SigOK -> "ok"
  | ErrInvalidSigPubKeyRecovery -> "ErrInvalidSigPubKeyRecovery"
  | ErrPubKeyRecoverMismatch -> "ErrPubKeyRecoverMismatch"
  | ErrInvalidAddressForSig -> "ErrInvalidAddressForSig"
  | ErrInvalidSigValidity -> "ErrInvalidSigValidity"
  | ErrInvalidHashForSig -> "ErrInvalidHashForSig"
  | ErrInvalidSigForMessage -> "ErrInvalidSigForMessage"

let handler (op : string) (args : string list) : string =
  match op, args with
  | "selftest", [] -> b2s (arith_selftest_expected = arith_selftest_actual ())
  | "nop", _ -> "-"
  | "vpsh", [ pk; sg; h ] -> verdict (verify_pubkey_signed_hash (bytes_of_hex pk) (bytes_of_hex sg) (bytes_of_hex h))
  | "vash", [ ver; key; sg; h ] ->
      verdict (verify_address_signed_hash pubkey_hash (num_of_hex ver) (bytes_of_hex key) (bytes_of_hex sg) (bytes_of_hex h))
  | "vsrp", [ sg; h ] -> verdict (verify_signature_recover_pubkey (bytes_of_hex sg) (bytes_of_hex h))
  | _ -> failwith ("unknown op " ^ op)

let () = main handler
