(* runner/zr.ml — glue between the extracted Coq code and Zarith (TRUSTED).
   Coq's Z / positive are both represented by Zarith integers.  Semantics of
   Coq 8.16: Z.div is floor division, Z.modulo has the sign of the divisor,
   a / 0 = 0 and a mod 0 = a. *)
type t = Z.t

(* positive: constructors and case analysis *)
let xH = Z.one
let xO p = Z.shift_left p 1
let xI p = Z.succ (Z.shift_left p 1)
let pos_case f_xI f_xO f_xH p =
  if Z.equal p Z.one then f_xH ()
  else if Z.is_even p then f_xO (Z.shift_right p 1)
  else f_xI (Z.shift_right p 1)

(* Z: constructors and case analysis *)
let z0 = Z.zero
let zpos p = p
let zneg p = Z.neg p
let z_case f0 fpos fneg z =
  let s = Z.sign z in
  if s = 0 then f0 () else if s > 0 then fpos z else fneg (Z.neg z)

let add = Z.add
let sub = Z.sub
let mul = Z.mul
let opp = Z.neg
let div a b = if Z.sign b = 0 then Z.zero else Z.fdiv a b
let modulo a b = if Z.sign b = 0 then a else Z.sub a (Z.mul b (Z.fdiv a b))
let eqb = Z.equal
let ltb = Z.lt
let leb = Z.leq

(* used by the drivers only (parsing / printing of case files) *)
let of_hex (s : string) : t = if s = "" then Z.zero else Z.of_string_base 16 s
let to_hex (z : t) : string = Z.format "%x" z
let of_int = Z.of_int
let to_int = Z.to_int
let to_dec (z : t) : string = Z.to_string z
